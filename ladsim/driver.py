"""Runs the real LADiM inside the simulator: configure -> Model -> steps -> finish."""

from __future__ import annotations

import gc
import logging
import os
import sys
import traceback
from pathlib import Path
from unittest import mock

import numpy as np

from ladsim import recorder, rng, world

REPO_ROOT = os.environ.get("LADSIM_REPO", "/repo")
if REPO_ROOT not in sys.path:
    sys.path.insert(0, REPO_ROOT)
_verif_root = str(Path(__file__).resolve().parents[1])
if _verif_root not in sys.path:
    sys.path.insert(0, _verif_root)

logging.disable(logging.CRITICAL)  # LADiM logs a lot; nothing is read from the log

import ladim  # noqa: E402
import ladim.configure  # noqa: E402
import ladim.main  # noqa: E402
import ladim.model  # noqa: E402


def check_repo_root() -> str:
    p = str(Path(ladim.__file__).resolve())
    root = str(Path(REPO_ROOT).resolve())
    if not p.startswith(root + os.sep):
        raise RuntimeError(f"ladim imported from {p}, expected under {root}")
    return p


class RunError:
    """An exception raised by the code under test, attributed"""

    def __init__(self, exc: BaseException, phase: str, step: int | None) -> None:
        self.type = type(exc).__name__
        self.message = str(exc)[:300]
        self.phase = phase          # configure | init | step | finish
        self.step = step
        self.file = None            # innermost LADiM source file (relative to repo)
        self.line = None
        self.func = None
        self.in_harness = False
        tb = traceback.extract_tb(exc.__traceback__)
        root = str(Path(REPO_ROOT).resolve())
        for fr in tb:
            fn = str(Path(fr.filename).resolve()) if fr.filename else ""
            if fn.startswith(root + os.sep):
                self.file = os.path.relpath(fn, root)
                self.line = fr.lineno
                self.func = fr.name
        if tb:
            last = str(Path(tb[-1].filename).resolve())
            if last.startswith(_verif_root + os.sep) and "plugins" not in last:
                self.in_harness = True
        self.trace = "".join(traceback.format_exception_only(type(exc), exc)).strip()[:300]

    def tag(self) -> str:
        mod = (self.file or "?").replace("ladim/", "").replace(".py", "")
        return f"crash:{self.type}@{mod}"

    def brief(self) -> str:
        return f"{self.type}: {self.message} [{self.file}:{self.line} in {self.func}; phase={self.phase} step={self.step}]"


class Run:
    """Result of one execution of LADiM"""

    def __init__(self) -> None:
        self.rec: recorder.Recorder | None = None
        self.error: RunError | None = None
        self.config_path: Path | None = None
        self.dir: Path | None = None
        self.steps_done = 0
        self.nsteps = None
        self.finished = False
        self.crashed_at: int | None = None
        self.config: dict | None = None
        self.rng_calls = 0


def _seeded_factory(seed, counter):
    real = np.random.default_rng

    def factory(*args, **kwargs):
        counter[0] += 1
        if args or kwargs:
            return real(*args, **kwargs)
        return np.random.Generator(np.random.PCG64(rng.derive(seed, "rng", counter[0])))

    return factory


def run_config(config_path: Path, *, rec: recorder.Recorder | None = None,
               rng_seed: int = 0, crash_after: int | None = None,
               use_main: bool = False, max_steps: int | None = None) -> Run:
    """Run LADiM on an existing configuration file.

    crash_after = k: the process 'dies' after k calls of Model.update(): no finish(),
    the dangling handles are dropped.  Any exception of the code under test is
    caught and attributed, never propagated.
    """
    run = Run()
    run.rec = rec
    run.config_path = config_path
    run.dir = config_path.parent
    recorder.REC = rec
    counter = [0]
    model = None
    cwd = os.getcwd()
    os.chdir(run.dir)
    try:
        with mock.patch("numpy.random.default_rng", _seeded_factory(rng_seed, counter)):
            if use_main:
                phase = "main"
                try:
                    with mock.patch("logging.basicConfig", lambda **kw: None):
                        ladim.main.main(config_path, loglevel=logging.CRITICAL)
                    run.finished = True
                except (Exception, SystemExit) as e:  # noqa: BLE001
                    run.error = RunError(e, phase, None)
                return run
            phase = "configure"
            step = None
            try:
                config = ladim.configure.configure(config_path)
                run.config = config
                phase = "init"
                model = ladim.model.Model(config)
                run.nsteps = int(model.timer.Nsteps)
                nsteps = run.nsteps if max_steps is None else min(run.nsteps, max_steps)
                phase = "step"
                for step in range(nsteps):
                    if crash_after is not None and step >= crash_after:
                        run.crashed_at = step
                        break
                    model.update()
                    run.steps_done += 1
                if run.crashed_at is None:
                    phase = "finish"
                    model.finish()
                    run.finished = True
            except (Exception, SystemExit) as e:  # noqa: BLE001
                run.error = RunError(e, phase, step)
    finally:
        run.rng_calls = counter[0]
        recorder.REC = None
        os.chdir(cwd)
        if model is not None and not run.finished:
            _drop_handles(model)
        del model
        if run.error is not None or run.crashed_at is not None:
            gc.collect()
    return run


def _drop_handles(model) -> None:
    """stand-in for process death: open NetCDF handles simply go away"""
    for name in ("output", "forcing"):
        mod = model.modules.get(name)
        for attr in ("nc", "_nc"):
            h = getattr(mod, attr, None)
            try:
                if h is not None and h.isopen():
                    h.close()
            except Exception:  # noqa: BLE001
                pass


def run_scenario(sc, d: Path | None = None, *, shims: bool = True, probe_fracs=(),
                 snap: bool = True, monitors=(), rng_seed: int = 0,
                 crash_after: int | None = None, use_main: bool = False,
                 write: bool = True, warm_file: str | None = None,
                 out_name: str | None = None, stop=None, cfg_edit=None,
                 spelling: str | None = None, cfg_name: str = "ladim",
                 max_steps: int | None = None, record: bool | None = None) -> Run:
    """Write the world of a scenario (unless write=False) and run LADiM on it"""
    own = d is None
    if own:
        d = world.new_dir()
    if write:
        world.write_world(sc, d)
    cfg = world.build_config(sc, d, shims=shims, warm_file=warm_file,
                             out_name=out_name, stop=stop)
    if cfg_edit is not None:
        cfg = cfg_edit(cfg) or cfg
    path = world.write_config(cfg, d, spelling or sc.get("spelling", "yaml2"), cfg_name)
    # record=True with shims=False: a recorder that must stay empty (no plug-in of the harness is configured)
    rec = recorder.Recorder(probe_fracs=probe_fracs, snap=snap, monitors=monitors) if (shims or record) else None
    run = run_config(path, rec=rec, rng_seed=rng_seed, crash_after=crash_after,
                     use_main=use_main, max_steps=max_steps)
    run.dir = d
    return run
