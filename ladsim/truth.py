"""Ground truth of a simulated world: node values computed from the scenario.

Nothing here imports LADiM.  The reference model and the file writer both take
their numbers from these functions, so that the files LADiM reads and the values
the oracle expects have one common, independent origin.

Conventions (full model grid): rho points (i, j), i = 0..imax0-1 (xi),
j = 0..jmax0-1 (eta); u node [j, iu] sits at x = iu + 1/2, y = j;
v node [jv, i] sits at x = i, y = jv + 1/2.  Arrays are indexed [.., j, i].
"""

from __future__ import annotations

import math

import numpy as np

EPOCH = np.datetime64("1970-01-01T00:00:00", "s")

# --------------------------------------------------------------------------
# time
# --------------------------------------------------------------------------


def t_start(sc) -> np.datetime64:
    return np.datetime64(sc["time"]["start"], "s")


def dt_s(sc) -> int:
    return int(sc["time"]["dt"])


def sgn(sc) -> int:
    return -1 if sc["time"].get("reversed") else 1


def t_stop(sc) -> np.datetime64:
    T = sc["time"]
    return t_start(sc) + sgn(sc) * (
        int(T["nsteps"]) * dt_s(sc) + int(T.get("stop_extra", 0))
    )


def t_ref(sc) -> np.datetime64:
    r = sc["time"].get("reference")
    if r:
        return np.datetime64(r, "s")
    return min(t_start(sc), t_stop(sc))


def step_time(sc, n: int) -> np.datetime64:
    """model time at model step n (simulation direction)"""
    return t_start(sc) + sgn(sc) * n * dt_s(sc)


def frame_offsets(sc) -> list[int]:
    """calendar offsets of the forcing frames from start, in units of dt"""
    return [int(x) for x in sc["frames"]["offsets"]]


def frame_times(sc) -> list[np.datetime64]:
    """frame times; 'phase_s' shifts every frame off the model time grid by that many seconds (0 <= phase < dt)"""
    ph = int(sc["frames"].get("phase_s", 0))
    return [t_start(sc) + o * dt_s(sc) + ph for o in frame_offsets(sc)]


def frame_steps(sc) -> list[int]:
    """model step number (simulation direction) of every frame, in file order"""
    return [sgn(sc) * o for o in frame_offsets(sc)]


# --------------------------------------------------------------------------
# horizontal grid
# --------------------------------------------------------------------------


def dims(sc) -> tuple[int, int]:
    g = sc["grid"]
    return int(g["jmax0"]), int(g["imax0"])


def mask_rho(sc) -> np.ndarray:
    jm, im = dims(sc)
    m = sc["grid"].get("mask", "open")
    if m == "open" or m is None:
        return np.ones((jm, im), dtype=int)
    a = np.array([[int(c) for c in row] for row in m], dtype=int)
    assert a.shape == (jm, im), (a.shape, jm, im)
    return a


def bathymetry(sc) -> np.ndarray:
    jm, im = dims(sc)
    b = sc["grid"].get("h", {"kind": "flat", "h0": 100.0})
    J, I = np.mgrid[0:jm, 0:im].astype(float)
    kind = b["kind"]
    if kind == "flat":
        h = np.full((jm, im), float(b["h0"]))
    elif kind == "slope":
        h = b["h0"] + b.get("ax", 0.0) * I + b.get("ay", 0.0) * J
    elif kind == "bumpy":
        h = b["h0"] * (
            1.0
            + b.get("amp", 0.4)
            * np.sin(b.get("kx", 0.9) * I + b.get("ph", 0.3))
            * np.cos(b.get("ky", 0.7) * J)
        )
    else:
        raise ValueError(kind)
    h = np.maximum(h, float(b.get("hmin", 2.0)))
    if sc["grid"].get("h_store", "f8") in ("i4", "i2"):
        h = np.round(h)            # a bathymetry product in whole metres, stored as integers
    return h


def metric(sc) -> tuple[np.ndarray, np.ndarray]:
    """dx, dy [m] at rho points"""
    jm, im = dims(sc)
    m = sc["grid"].get("metric", {"kind": "const", "dx": 1000.0, "dy": 1000.0})
    J, I = np.mgrid[0:jm, 0:im].astype(float)
    if m["kind"] == "const":
        dx = np.full((jm, im), float(m["dx"]))
        dy = np.full((jm, im), float(m.get("dy", m["dx"])))
    elif m["kind"] == "vary":
        dx = m["dx"] * (
            1.0 + m.get("ax", 0.0) * (I - im / 2) + m.get("ay", 0.0) * (J - jm / 2)
        )
        dy = m.get("ratio", 1.0) * dx
    else:
        raise ValueError(m["kind"])
    # the file stores pm = 1/dx as float64; LADiM computes 1/pm
    return 1.0 / (1.0 / dx), 1.0 / (1.0 / dy)


def lonlat(sc) -> tuple[np.ndarray, np.ndarray]:
    jm, im = dims(sc)
    ll = sc["grid"].get(
        "lonlat",
        {"kind": "linear", "lon0": 2.0, "lat0": 60.0, "a": 0.02, "b": 0.004,
         "c": -0.002, "d": 0.01},
    )
    J, I = np.mgrid[0:jm, 0:im].astype(float)
    if ll["kind"] == "linear":
        lon = ll["lon0"] + ll["a"] * I + ll["b"] * J
        lat = ll["lat0"] + ll["c"] * I + ll["d"] * J
    elif ll["kind"] == "stereo":
        # polar stereographic patch, true at 60N, resolution dxs [km]
        R = 6371.0
        xp = ll["xp0"] + ll["dxs"] * I
        yp = ll["yp0"] + ll["dxs"] * J
        th = math.radians(ll.get("rot", 0.0))
        xr = math.cos(th) * xp - math.sin(th) * yp
        yr = math.sin(th) * xp + math.cos(th) * yp
        r = np.hypot(xr, yr)
        phi = np.pi / 2 - 2 * np.arctan(r / (R * (1 + math.sin(math.radians(60.0)))))
        lat = np.degrees(phi)
        lon = ll.get("lon_c", 58.0) + np.degrees(np.arctan2(xr, -yr))
    else:
        raise ValueError(ll["kind"])
    return lon, lat


def subgrid(sc) -> tuple[int, int, int, int]:
    """the loaded sub-rectangle [i0, i1) x [j0, j1) of rho points, normalised"""
    jm, im = dims(sc)
    sg = sc["grid"].get("subgrid")
    if not sg:
        return 1, im - 1, 1, jm - 1
    i0, i1, j0, j1 = sg
    if i0 < 0:
        i0 += im
    if i1 < 0:
        i1 += im
    if j0 < 0:
        j0 += jm
    if j1 < 0:
        j1 += jm
    return i0, i1, j0, j1


def valid_region(sc) -> tuple[float, float, float, float]:
    """open rectangle in which particles may live: xlo < X < xhi, ylo < Y < yhi"""
    i0, i1, j0, j1 = subgrid(sc)
    return i0 + 0.5, i1 - 1.5, j0 + 0.5, j1 - 1.5


# --------------------------------------------------------------------------
# vertical grid (independent implementation of the ROMS formulas)
# --------------------------------------------------------------------------


def vert(sc) -> dict:
    v = dict(N=1, Vtransform=1, Vstretching=1, theta_s=3.0, theta_b=0.4, hc=5.0,
             source="file")
    v.update(sc["grid"].get("vert", {}))
    return v


def stretching(N: int, theta_s: float, theta_b: float, Vstretching: int,
               w: bool = False) -> np.ndarray:
    if w:
        s = np.array([-1.0 + k / N for k in range(N + 1)])
    else:
        s = np.array([-1.0 + (k + 0.5) / N for k in range(N)])
    if Vstretching == 1:
        C = (1 - theta_b) * np.sinh(theta_s * s) / math.sinh(theta_s) + theta_b * (
            np.tanh(theta_s * (s + 0.5)) / (2 * math.tanh(0.5 * theta_s)) - 0.5
        )
    elif Vstretching == 2:
        csur = (1 - np.cosh(theta_s * s)) / (math.cosh(theta_s) - 1)
        cbot = np.sinh(theta_b * (s + 1)) / math.sinh(theta_b) - 1
        cw = (s + 1) * (1 + (1 - (s + 1)))
        C = cw * csur + (1 - cw) * cbot
    elif Vstretching == 4:
        C = (1 - np.cosh(theta_s * s)) / (math.cosh(theta_s) - 1)
        C = (np.exp(theta_b * C) - 1) / (1 - math.exp(-theta_b))
    else:
        raise ValueError(Vstretching)
    return C


def level_depths(sc, h: np.ndarray | None = None) -> np.ndarray:
    """z of the rho levels [N, jmax0, imax0], negative below the surface"""
    v = vert(sc)
    if h is None:
        h = bathymetry(sc)
    N = v["N"]
    C = stretching(N, v["theta_s"], v["theta_b"], v["Vstretching"])
    s = np.array([-1.0 + (k + 0.5) / N for k in range(N)])
    hc = float(v["hc"])
    z = np.empty((N, *h.shape))
    for k in range(N):
        if v["Vtransform"] == 1:
            z[k] = hc * (s[k] - C[k]) + C[k] * h
        else:
            z[k] = h * (hc * s[k] + C[k] * h) / (hc + h)
    return z


# --------------------------------------------------------------------------
# flow
# --------------------------------------------------------------------------


def _base(flow: dict, comp: str, x: np.ndarray, y: np.ndarray, sc) -> np.ndarray:
    """spatial pattern [m/s] of velocity component comp ('u' or 'v')"""
    kind = flow.get("kind", "const")
    if kind == "const":
        return np.full(x.shape, float(flow[comp + "0"]))
    xc, yc = flow.get("xc", 0.0), flow.get("yc", 0.0)
    if kind == "linear":
        return (
            flow[comp + "0"]
            + flow.get(comp + "x", 0.0) * (x - xc)
            + flow.get(comp + "y", 0.0) * (y - yc)
        )
    if kind == "rot":
        om = flow["om"]
        scale = flow.get("scale", 1000.0)
        if comp == "u":
            return flow.get("u0", 0.0) - om * (y - yc) * scale
        return flow.get("v0", 0.0) + om * (x - xc) * scale
    if kind == "sinus":
        r = np.full(x.shape, float(flow.get(comp + "0", 0.0)))
        for a, kx, ky, ph in flow[comp + "w"]:
            r = r + a * np.sin(kx * x + ky * y + ph)
        return r
    raise ValueError(kind)


def _amp(flow: dict, comp: str, f: int) -> float:
    a = flow.get("amp_" + comp)
    return float(a[f]) if a else 1.0


def _lvl(flow: dict, N: int) -> np.ndarray:
    lv = flow.get("levels")
    if lv:
        assert len(lv) == N
        return np.array(lv, dtype=float)
    return np.ones(N)


def desired_uv(sc, f: int) -> tuple[np.ndarray, np.ndarray]:
    """velocity the ocean model 'wanted' to store at the nodes for frame f (float64)"""
    jm, im = dims(sc)
    N = vert(sc)["N"]
    flow = sc["flow"]
    ju, iu = np.mgrid[0:jm, 0 : im - 1].astype(float)
    jv, iv = np.mgrid[0 : jm - 1, 0:im].astype(float)
    bu = _base(flow, "u", iu + 0.5, ju, sc) * _amp(flow, "u", f)
    bv = _base(flow, "v", iv, jv + 0.5, sc) * _amp(flow, "v", f)
    lv = _lvl(flow, N)
    return lv[:, None, None] * bu[None], lv[:, None, None] * bv[None]


def file_of_frame(sc, f: int) -> int:
    """index of the forcing file that holds frame f"""
    n = len(frame_offsets(sc))
    split = sc["frames"].get("split") or [n]
    acc = 0
    for k, m in enumerate(split):
        acc += m
        if f < acc:
            return k
    return len(split) - 1


def file_storage(sc, file_index: int) -> tuple[str, tuple[float, float]]:
    """storage type and (scale_u, scale_v) of a forcing file; 'per_file' overrides the common setting
    (files packed one by one carry their own scale factors, packed and float files may be mixed)"""
    fr = sc["frames"]
    pf = fr.get("per_file")
    spec = pf[file_index] if pf and file_index < len(pf) else fr
    sc_ = spec.get("scale", fr.get("scale", 1.0e-4))
    if not isinstance(sc_, (list, tuple)):
        sc_ = [sc_, sc_]
    return spec.get("storage", fr.get("storage", "f4")), (float(sc_[0]), float(sc_[1]))


def pack_scale(sc, comp: str = "u", file_index: int = 0) -> float:
    s = file_storage(sc, file_index)[1]
    return s[0 if comp == "u" else 1]


def stored_uv(sc, f: int, file_index: int | None = None):
    """what goes into the file: (array to write, its netCDF dtype, scale or None)"""
    du, dv = desired_uv(sc, f)
    if file_index is None:
        file_index = file_of_frame(sc, f)
    storage, (su, sv) = file_storage(sc, file_index)
    if storage == "i2":
        qu = np.clip(np.rint(du / su), -32000, 32000).astype(np.int16)
        qv = np.clip(np.rint(dv / sv), -32000, 32000).astype(np.int16)
        return qu, qv, (su, sv)
    du, dv = du.astype(np.float32), dv.astype(np.float32)
    if sc["frames"].get("land_fill"):
        # the ocean model leaves its fill value on land faces (ROMS: 1e37); only the land mask makes them zero
        mu, mv = face_masks(sc)
        du[:, mu == 0] = np.float32(1.0e37)
        dv[:, mv == 0] = np.float32(1.0e37)
    return du, dv, None


def truth_uv(sc, f: int) -> tuple[np.ndarray, np.ndarray]:
    """node velocities the file holds for frame f, as float64 (no land mask applied)"""
    a, b, s = stored_uv(sc, f)
    if s is None:
        return a.astype(np.float64), b.astype(np.float64)
    su, sv = np.float32(s[0]), np.float32(s[1])
    return (su * a.astype(np.float32)).astype(np.float64), (
        sv * b.astype(np.float32)
    ).astype(np.float64)


def face_masks(sc) -> tuple[np.ndarray, np.ndarray]:
    """1 where both cells adjacent to a u (v) face are sea"""
    m = mask_rho(sc)
    return m[:, :-1] * m[:, 1:], m[:-1, :] * m[1:, :]


def scalar_names(sc) -> list[str]:
    return list(sc["flow"].get("scalars", []))


def scalar_offset(name: str) -> float:
    return 1.0 + {"temp": 0.0, "salt": 0.5}.get(name, 0.25)


def scalar_ident(sc, f: int) -> np.ndarray:
    """integer that identifies (frame, level, cell) [N, jmax0, imax0]"""
    jm, im = dims(sc)
    N = vert(sc)["N"]
    K, J, I = np.mgrid[0:N, 0:jm, 0:im]
    return ((f * N + K) * jm + J) * im + I


def truth_scalar(sc, name: str, f: int) -> np.ndarray:
    """scalar field of frame f at rho points [N, jmax0, imax0] as float64 of float32.

    'temp' style scalars carry a value that identifies (frame, level, cell)."""
    jm, im = dims(sc)
    N = vert(sc)["N"]
    K, J, I = np.mgrid[0:N, 0:jm, 0:im]
    if name == "w":  # noqa: SIM114
        wf = sc["flow"].get("w", {"w0": 0.0})
        amp = wf.get("amp")
        a = float(amp[f]) if amp else 1.0
        val = wf["w0"] * a * (1.0 + 0.05 * ((I + 2 * J + K) % 5))
    else:
        ident = ((f * N + K) * jm + J) * im + I
        off = {"temp": 0.0, "salt": 0.5}.get(name, 0.25)
        val = 1.0 + off + ident * 0.0625  # exactly representable steps in float32
    val = val.astype(np.float32)
    if sc["frames"].get("land_fill") and not sc["frames"].get("scalar_packed"):
        val[:, mask_rho(sc) == 0] = np.float32(1.0e37)      # fill value in land cells
    return val.astype(np.float64)
