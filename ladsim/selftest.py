"""Set-up check and self-tests of the machinery (determinism, evidence validation)."""
from __future__ import annotations

import json
import subprocess
import sys
from pathlib import Path

VERIF = Path(__file__).resolve().parents[1]


def setup() -> int:
    from ladsim import driver
    p = driver.check_repo_root()
    import netCDF4, numba, numpy, pandas, yaml, tomli  # noqa: F401
    print("ladim from", p)
    print("setup ok")
    return 0


def validate_evidence() -> int:
    code = (
        "import json,sys,glob,jsonschema;"
        "s=json.load(open('/root/.vp/EVIDENCE.schema.json'));bad=0\n"
        "for f in sorted(glob.glob('/verif/evidence/*.json')):\n"
        "    try: jsonschema.validate(json.load(open(f)),s); print('ok',f)\n"
        "    except Exception as e: bad+=1; print('BAD',f,str(e)[:200])\n"
        "sys.exit(1 if bad else 0)"
    )
    return subprocess.call(["python3-vt", "-c", code])


def run(name: str, pid, jobs: int) -> int:
    if name == "determinism":
        from ladsim import determinism
        return determinism.main(pid, jobs)
    if name == "sensitivity":
        # every stored seeded change against the check of its property, each repair reversed
        rc = subprocess.call([sys.executable, str(VERIF / "tools" / "mutants.py"), "seeded", "--budget", "45"])
        return 2 if rc else 0
    print("unknown selftest", name)
    return 2
