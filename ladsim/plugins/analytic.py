"""Analytic ocean: plug-in Grid and Forcing without files (stub components).

spec (JSON string, the same for both classes):
  dx, dy       grid spacing [m]
  depth        bottom depth [m]
  size         half-width of the domain in cells (particles never reach the border)
  w0           optional uniform vertical current [m/s] offered as forcing variable "w"
  dx_alt       optional factor: cells with an odd column index are that much wider (non-uniform metric)
  flow         {"kind": "still"} |
               {"kind": "rot", "om0": rad/s, "eps": e, "nu": rad/s, "xc": .., "yc": ..}
                   angular rate om(t) = om0 * (1 + eps * sin(nu * t)), t seconds since start,
                   u = -om * (Y - yc) * dy,  v = om * (X - xc) * dx   [m/s]
               {"kind": "shear", "a": 1/s, "b": m/s}:  u = (a * (Y - yc) * dy + b) * g(t), v = 0
"""

import json

import numpy as np
from ladim.forcing import BaseForce
from ladim.grid import BaseGrid

from ladsim import recorder


class Grid(BaseGrid):
    def __init__(self, spec="{}", modules=None, **kwargs):
        s = json.loads(spec) if isinstance(spec, str) else dict(spec)
        self.s = s
        self.dx = float(s.get("dx", 1000.0))
        self.dy = float(s.get("dy", self.dx))
        self.h = float(s.get("depth", 100.0))
        size = float(s.get("size", 1.0e6))
        self.xmin, self.xmax, self.ymin, self.ymax = -size, size, -size, size
        r = recorder.REC
        if r is not None:
            r.on_init("grid", self, modules)

    def depth(self, X, Y):
        return self.h + np.zeros_like(X)

    def metric(self, X, Y):
        if "dx_alt" in self.s:      # every other column of cells is wider by this factor
            odd = (np.round(X).astype(int) % 2) != 0
            return np.where(odd, self.dx * float(self.s["dx_alt"]), self.dx), self.dy + np.zeros_like(Y)
        return self.dx + np.zeros_like(X), self.dy + np.zeros_like(Y)

    def ingrid(self, X, Y):
        return (self.xmin < X) & (X < self.xmax) & (self.ymin < Y) & (Y < self.ymax)

    def atsea(self, X, Y):
        return np.ones(np.shape(X), dtype=bool)


class Forcing(BaseForce):
    def __init__(self, modules, spec="{}", **kwargs):
        self.modules = modules
        s = json.loads(spec) if isinstance(spec, str) else dict(spec)
        self.s = s
        self.flow = s.get("flow", {"kind": "still"})
        self.dx = float(s.get("dx", 1000.0))
        self.dy = float(s.get("dy", self.dx))
        self.variables = {"u": np.array([]), "v": np.array([])}
        timer = modules["time"]
        self.dt = timer.dt / np.timedelta64(1, "s")
        self.sgn = -1.0 if timer.time_reversal else 1.0
        r = recorder.REC
        if r is not None:
            r.on_init("forcing", self, modules)

    def _uv(self, X, Y, t):
        f = self.flow
        kind = f.get("kind", "still")
        if kind == "still":
            return np.zeros_like(X), np.zeros_like(Y)
        xc, yc = f.get("xc", 0.0), f.get("yc", 0.0)
        g = 1.0 + f.get("eps", 0.0) * np.sin(f.get("nu", 0.0) * t)
        if kind == "rot":
            om = f["om0"] * g
            return -om * (Y - yc) * self.dy, om * (X - xc) * self.dx
        if kind == "shear":
            return (f["a"] * (Y - yc) * self.dy + f.get("b", 0.0)) * g, np.zeros_like(Y)
        raise ValueError(kind)

    def update(self):
        r = recorder.REC
        if r is not None:
            r.call("forcing", "update")
        state = self.modules["state"]
        step = self.modules["time"].step
        U, V = self._uv(state.X, state.Y, step * self.dt)
        self.variables["u"], self.variables["v"] = U, V
        if "w0" in self.s:      # a uniform vertical current [m/s]
            self.variables["w"] = float(self.s["w0"]) + np.zeros_like(state.X)
        if r is not None:
            r.snapshot("forcing.post")

    def velocity(self, X, Y, Z, fractional_step=0, method="bilinear"):
        step = self.modules["time"].step
        U, V = self._uv(X, Y, (step + fractional_step) * self.dt)
        r = recorder.REC
        if r is not None:
            r.velocity_call(X, Y, Z, fractional_step, (U, V))
        return U, V

    def close(self):
        r = recorder.REC
        if r is not None:
            r.call("forcing", "close")
