"""A user's own grid/forcing module (stub plug-in): the ROMS classes with an observably different grid.

Used by C18: a version-2 grid section without a module key must use the *forcing* module's Grid,
as the legacy translation and a fully explicit configuration do."""

import ladim.ROMS as _roms


class Grid(_roms.Grid):
    def metric(self, X, Y):
        dx, dy = super().metric(X, Y)
        return 2.0 * dx, 2.0 * dy


class Forcing(_roms.Forcing):
    pass
