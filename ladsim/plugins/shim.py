"""Recording shims, loaded by LADiM through its own ``module: <path>`` key.

Each class subclasses the real LADiM class, records the call in the current
``ladsim.recorder.REC`` and delegates to ``super()``.  A shim overrides only
methods the base class has, and never changes arguments or results.
"""

import ladim.ibm
import ladim.out_netcdf
import ladim.release
import ladim.ROMS
import ladim.state
import ladim.timekeeper
import ladim.tracker

from ladsim import recorder


def _rec():
    return recorder.REC


class State(ladim.state.State):
    def __init__(self, *args, modules=None, **kwargs):
        super().__init__(*args, modules=modules, **kwargs)
        r = _rec()
        if r is not None:
            r.on_init("state", self, modules)

    def compactify(self):
        r = _rec()
        if r is not None:
            r.call("state", "compactify")
        return super().compactify()


class TimeKeeper(ladim.timekeeper.TimeKeeper):
    def __init__(self, *args, modules=None, **kwargs):
        super().__init__(*args, modules=modules, **kwargs)
        r = _rec()
        if r is not None:
            r.on_init("time", self, modules)

    def update(self):
        out = super().update()
        r = _rec()
        if r is not None:
            r.call("time", "update")
        return out


class Grid(ladim.ROMS.Grid):
    def __init__(self, *args, modules=None, **kwargs):
        super().__init__(*args, **kwargs)
        r = _rec()
        if r is not None:
            r.on_init("grid", self, modules)


class Forcing(ladim.ROMS.Forcing):
    def __init__(self, modules, *args, **kwargs):
        super().__init__(modules, *args, **kwargs)
        r = _rec()
        if r is not None:
            r.on_init("forcing", self, modules)

    def update(self):
        r = _rec()
        if r is not None:
            r.call("forcing", "update")
            r.snapshot("forcing.pre")
        out = super().update()
        if r is not None:
            r.snapshot("forcing.post")
            r.probe_forcing()
        return out

    def velocity(self, X, Y, Z, fractional_step=0, method="bilinear"):
        res = super().velocity(X, Y, Z, fractional_step=fractional_step, method=method)
        r = _rec()
        if r is not None:
            r.velocity_call(X, Y, Z, fractional_step, res)
        return res

    def close(self):
        r = _rec()
        if r is not None:
            r.call("forcing", "close")
        return super().close()


class ParticleReleaser(ladim.release.ParticleReleaser):
    def __init__(self, modules, *args, **kwargs):
        super().__init__(modules, *args, **kwargs)
        r = _rec()
        if r is not None:
            r.on_init("release", self, modules)

    def update(self):
        r = _rec()
        if r is not None:
            r.call("release", "update")
            r.snapshot("release.pre")
        out = super().update()
        if r is not None:
            r.snapshot("release.post")
        return out


class Tracker(ladim.tracker.Tracker):
    def __init__(self, *args, modules, **kwargs):
        super().__init__(*args, modules=modules, **kwargs)
        r = _rec()
        if r is not None:
            r.on_init("tracker", self, modules)

    def update(self):
        r = _rec()
        if r is not None:
            r.call("tracker", "update")
            r.snapshot("tracker.pre")
            r.in_tracker = True
        try:
            out = super().update()
        finally:
            if r is not None:
                r.in_tracker = False
        if r is not None:
            r.snapshot("tracker.post")
        return out


class IBM(ladim.ibm.IBM):
    def __init__(self, modules, **kwargs):
        super().__init__(modules, **kwargs)
        r = _rec()
        if r is not None:
            r.on_init("ibm", self, modules)

    def update(self):
        r = _rec()
        if r is not None:
            r.call("ibm", "update")
        out = super().update()
        if r is not None:
            r.snapshot("ibm.post")
        return out

    def close(self):
        r = _rec()
        if r is not None:
            r.call("ibm", "close")
        return super().close()


class Output(ladim.out_netcdf.Output):
    def __init__(self, modules, *args, **kwargs):
        super().__init__(modules, *args, **kwargs)
        r = _rec()
        if r is not None:
            r.on_init("output", self, modules)

    def update(self):
        r = _rec()
        if r is not None:
            r.call("output", "update")
            r.snapshot("output.pre")
        out = super().update()
        if r is not None:
            r.snapshot("output.post")
        return out

    def close(self):
        r = _rec()
        if r is not None:
            r.call("output", "close")
        return super().close()
