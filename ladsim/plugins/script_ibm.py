"""Scripted biology: a plug-in IBM driven by the scenario (stub component).

script (JSON string):
  t0          ISO time of the scenario's start (events are keyed by whole steps since t0
              in simulation direction, so a restarted run replays the same schedule)
  dt          seconds, sgn +-1
  age         bool: state['age'] += 1.0 per step
  weight      bool: state['weight'] += 0.001 * state['temp']
  dose        bool: state['dose'] += X + Y/2 (position-dependent IBM state)
  kills       {"<n>": [tags]}    kill living particles carrying one of the tags at event step n
  kill_pids   {"<n>": [pids]}
  deact/act   {"<n>": [tags]}    clear / set the active flag
  lifetime    int or null: particles with age >= lifetime die
"""

import json

import numpy as np

from ladsim import recorder


class IBM:
    def __init__(self, modules, script="{}", **kwargs):
        self.modules = modules
        self.s = json.loads(script) if isinstance(script, str) else dict(script)
        self.t0 = np.datetime64(self.s["t0"], "s")
        self.dt = int(self.s["dt"])
        self.sgn = int(self.s.get("sgn", 1))
        r = recorder.REC
        if r is not None:
            r.on_init("ibm", self, modules)

    def _event_step(self):
        t = np.datetime64(self.modules["time"].time, "s")
        return int(self.sgn * ((t - self.t0) / np.timedelta64(1, "s"))) // self.dt

    def update(self):
        r = recorder.REC
        if r is not None:
            r.call("ibm", "update")
            r.snapshot("ibm.pre")
        state = self.modules["state"]
        s = self.s
        n = str(self._event_step())
        if s.get("age"):
            state["age"] = state["age"] + 1.0
        if s.get("weight"):
            state["weight"] = state["weight"] + 0.001 * state["temp"]
        if s.get("dose"):      # exposure integral: depends on where the particle is after the move
            state["dose"] = state["dose"] + state["X"] + 0.5 * state["Y"]
        tags = s.get("kills", {}).get(n)
        if tags:
            state["alive"] = state["alive"] & ~np.isin(state["tag"], tags)
        pids = s.get("kill_pids", {}).get(n)
        if pids:
            state["alive"] = state["alive"] & ~np.isin(state["pid"], pids)
        tags = s.get("deact", {}).get(n)
        if tags:
            state["active"] = state["active"] & ~np.isin(state["tag"], tags)
        tags = s.get("act", {}).get(n)
        if tags:
            state["active"] = state["active"] | np.isin(state["tag"], tags)
        life = s.get("lifetime")
        if life is not None and s.get("age"):
            state["alive"] = state["alive"] & (state["age"] < life)
        if r is not None:
            r.snapshot("ibm.post")

    def close(self):
        r = recorder.REC
        if r is not None:
            r.call("ibm", "close")
