"""Read LADiM output files back into a neutral record list (uses netCDF4 only)."""

from __future__ import annotations

import re
from pathlib import Path

import numpy as np
from netCDF4 import Dataset


def decode_time(values, units: str) -> np.ndarray:
    """CF time -> datetime64[s]; only 'seconds|minutes|hours|days since <iso>'"""
    m = re.match(r"\s*(\w+)\s+since\s+(.+?)\s*$", units)
    if not m:
        raise ValueError(f"bad time units {units!r}")
    unit, ref = m.group(1), m.group(2)
    mult = {"seconds": 1, "minutes": 60, "hours": 3600, "days": 86400}[unit]
    ref64 = np.datetime64(ref.replace(" ", "T"), "s")
    vals = np.asarray(values, dtype=float) * mult
    out = np.array([ref64 + np.timedelta64(int(round(v)), "s") for v in vals.ravel()],
                   dtype="M8[s]")
    return out.reshape(np.shape(vals)) if np.ndim(vals) else out


class OutFile:
    """One output file, read back raw"""

    def __init__(self, path: Path) -> None:
        self.path = Path(path)
        self.name = self.path.name
        with Dataset(self.path) as nc:
            nc.set_auto_mask(False)
            self.dims = {k: len(v) for k, v in nc.dimensions.items()}
            self.attrs = {k: nc.getncattr(k) for k in nc.ncattrs()}
            self.data_model = nc.data_model
            self.vars = {}
            self.var_dims = {}
            self.var_attrs = {}
            self.var_dtype = {}
            for k, v in nc.variables.items():
                self.vars[k] = np.array(v[...])
                self.var_dims[k] = v.dimensions
                self.var_attrs[k] = {a: v.getncattr(a) for a in v.ncattrs()}
                self.var_dtype[k] = v.dtype
        self.layout = "dense" if "particle_instance" not in self.dims else "sparse"
        tv = self.vars.get("time")
        self.nrec = 0 if tv is None else len(tv)
        self.times = (
            decode_time(tv, self.var_attrs["time"]["units"]) if self.nrec else np.array([], "M8[s]")
        )
        self.raw_times = np.array(tv) if tv is not None else np.array([])

    @property
    def instance_vars(self) -> list[str]:
        key = ("particle_instance",) if self.layout == "sparse" else ("time", "particle")
        return [k for k, d in self.var_dims.items() if d == key]

    @property
    def particle_vars(self) -> list[str]:
        return [k for k, d in self.var_dims.items() if d == ("particle",)]

    def record(self, n: int) -> dict:
        """record n exactly as doc/source/output.rst prescribes (sparse) or row n (dense)"""
        if self.layout == "sparse":
            pc = self.vars["particle_count"][: n + 1]
            start = int(np.sum(pc[:n]))
            count = int(pc[n])
            out = {k: self.vars[k][start : start + count] for k in self.instance_vars}
        else:
            out = {k: self.vars[k][n] for k in self.instance_vars}
        return out


def list_output_files(d: Path, stem: str = "out") -> list[Path]:
    """the output files of a run: stem.nc or stem_000.nc, ... sorted by number"""
    d = Path(d)
    single = d / f"{stem}.nc"
    files = []
    if single.exists():
        files.append(single)
    numbered = []
    for p in d.glob(f"{stem}_*.nc"):
        m = re.fullmatch(re.escape(stem) + r"_(\d+)\.nc", p.name)
        if m:
            numbered.append((int(m.group(1)), p))
    files += [p for _, p in sorted(numbered)]
    return files


class Records:
    """All records of a run, in file order"""

    def __init__(self, files: list[Path]) -> None:
        self.files: list[OutFile] = []
        self.errors: list[str] = []
        for p in files:
            try:
                self.files.append(OutFile(p))
            except Exception as e:  # noqa: BLE001
                self.errors.append(f"{Path(p).name}: {type(e).__name__}: {e}")
        self.recs: list[dict] = []
        for fi, f in enumerate(self.files):
            for n in range(f.nrec):
                try:
                    data = f.record(n)
                except Exception as e:  # noqa: BLE001
                    self.errors.append(f"{f.name}[{n}]: {type(e).__name__}: {e}")
                    continue
                self.recs.append({"file": fi, "fname": f.name, "index": n,
                                  "time": f.times[n], "data": data, "layout": f.layout})

    def times(self) -> list[np.datetime64]:
        return [r["time"] for r in self.recs]


def sparse_members(rec: dict) -> np.ndarray:
    return np.asarray(rec["data"]["pid"]).astype(int)


def dense_members(rec: dict, var: str = "X") -> np.ndarray:
    a = np.asarray(rec["data"][var])
    if a.dtype.kind == "f":
        return np.nonzero(~np.isnan(a) & (np.abs(a) < 9.0e36))[0]
    return np.arange(len(a))
