"""Swarm generator: seed + property profile -> Scenario (a plain JSON-able dict).

Every draw comes from one ``rng.Stream`` derived from the run seed.  A profile
is a dict of knobs (probabilities, ranges, pins); unspecified knobs take the
defaults in ``DEFAULT``.  The generator enforces the premises the properties
state (frames on the model time grid covering the window, releases in sea cells
of the valid region, per-step displacement below one cell, ...).
"""

from __future__ import annotations

import math

import numpy as np

from ladsim import truth
from ladsim.rng import Stream, stream

DEFAULT = dict(
    nsteps=(1, 30),
    p_reversed=0.25,
    p_stop_extra=0.15,        # stop not on the step grid
    p_reference=0.3,
    grid_i=(8, 16), grid_j=(8, 14),
    p_land=0.5, p_islands=0.5, p_channel=0.2,
    p_bathy_var=0.5,
    p_metric_aniso=0.3, p_metric_vary=0.3,
    N=(1, 6), p_vtransform2=0.4, p_vinfo=0.25,
    p_subgrid=0.35, p_subgrid_negative=0.3,
    spacing=(1, 8), p_spacing_one=0.15, p_irregular=0.4,
    p_multifile=0.6, p_one_frame_per_file=0.15, p_packed=0.3,
    extra_frames=(0, 2),
    flow_kinds=(("const", 1), ("linear", 3), ("sinus", 3), ("rot", 1)),
    cfl=(0.05, 0.7),
    p_levels=0.6, p_time_dependent=0.85,
    p_temp=0.5, p_w=0.0,
    rows=(1, 8), mult=((1, 6), (2, 2), (0, 1), (3, 1)), p_late_rows=0.6,
    p_rows_outside=0.3, p_continuous=0.3, p_header=0.7, p_lonlat_release=0.0,
    p_extra_float=0.3, p_extra_time=0.15, p_tag_particle=0.0,
    p_ibm=0.6, p_kills=0.6, p_deact=0.25, p_lifetime=0.2, p_weight=0.3,
    schemes=(("EF", 2), ("RK2", 1), ("RK4", 1)),
    p_diffusion=0.0, p_vertdiff=0.0, p_vertadv=0.0,
    period=(1, 6), p_numrec=0.5, numrec=(1, 4), p_dense=0.2,
    p_f4=0.3, p_pvars=0.4, p_release_time_pvar=0.3, p_lonlat_out=0.15,
    spellings=(("yaml2", 4), ("toml2", 1)),
    p_edge_positions=0.1,
    dts=(60, 120, 300, 600, 900, 1800, 3600, 60, 300, 900, 3600, 86400, 129600, 172800),   # a sixth: one day or more
    lonlat_kinds=(("linear", 3), ("stereo", 1)),
)


def profile(**over) -> dict:
    p = dict(DEFAULT)
    p.update(over)
    return p


# --------------------------------------------------------------------------


def _mask(s: Stream, p, jm: int, im: int) -> list[str] | str:
    if not s.chance(p["p_land"]):
        return "open"
    m = np.ones((jm, im), dtype=int)
    style = s.pick(["east", "west", "north", "south", "corner", "none"])
    w = s.randint(1, 3)
    if style == "east":
        m[:, im - w:] = 0
    elif style == "west":
        m[:, :w] = 0
    elif style == "north":
        m[jm - w:, :] = 0
    elif style == "south":
        m[:w, :] = 0
    elif style == "corner":
        m[: jm // 2, : w + 1] = 0
    if s.chance(p["p_islands"]):
        for _ in range(s.randint(1, 3)):
            j, i = s.randint(2, jm - 3), s.randint(2, im - 3)
            hj, wi = s.randint(1, 2), s.randint(1, 2)
            m[j : j + hj, i : i + wi] = 0
    if s.chance(p["p_channel"]):
        # a wall with a one-cell gap
        i = s.randint(3, im - 4)
        m[:, i] = 0
        m[s.randint(2, jm - 3), i] = 1
    if m.sum() < 0.4 * m.size:
        return "open"
    return ["".join(str(v) for v in row) for row in m]


def _subgrid(s: Stream, p, jm: int, im: int):
    if not s.chance(p["p_subgrid"]) or im < 9 or jm < 9:
        return None
    for _ in range(20):
        i0 = s.randint(1, im - 7)
        i1 = s.randint(i0 + 5, im - 1)
        j0 = s.randint(1, jm - 7)
        j1 = s.randint(j0 + 5, jm - 1)
        if i1 - i0 >= 5 and j1 - j0 >= 5:
            sg = [i0, i1, j0, j1]
            if s.chance(p["p_subgrid_negative"]):
                k = s.pick([0, 1, 2, 3])
                sg[k] = sg[k] - (im if k < 2 else jm)
            return sg
    return None


def _frames(s: Stream, p, nsteps: int, rev: bool, stop_extra: bool) -> dict:
    """offsets in calendar direction, covering the window with margins"""
    need_lo, need_hi = (-nsteps - (1 if stop_extra else 0), 0) if rev else (0, nsteps + (1 if stop_extra else 0))
    lo_sp, hi_sp = p["spacing"]
    if s.chance(p["p_spacing_one"]):
        spacing = 1
    else:
        spacing = s.randint(max(lo_sp, 1), hi_sp)
    irregular = s.chance(p["p_irregular"])
    # start at or before need_lo
    first = need_lo - s.randint(0, max(0, spacing - 1)) if s.chance(0.7) else need_lo
    first -= spacing * s.randint(*p["extra_frames"]) if s.chance(0.5) else 0
    offs = [first]
    extra_after = s.randint(*p["extra_frames"])
    while True:
        if offs[-1] >= need_hi:
            if extra_after <= 0:
                break
            extra_after -= 1
        step = spacing
        if irregular:
            step = s.randint(1, max(1, 2 * spacing - 1))
        offs.append(offs[-1] + step)
        if len(offs) > 400:
            break
    n = len(offs)
    fr: dict = {"offsets": offs}
    if n >= 2 and s.chance(p["p_multifile"]):
        if s.chance(p["p_one_frame_per_file"]) and n <= 12:
            split = [1] * n
        else:
            nfiles = s.randint(2, min(6, n))
            cuts = sorted(s.sample(range(1, n), nfiles - 1))
            split = [b - a for a, b in zip([0, *cuts], [*cuts, n])]
        fr["split"] = split
    fr["time_units"] = s.wpick([("epoch", 6), ("y2000", 2), ("hours", 2), ("days", 1), ("days1948", 1), ("year1", 1)])
    if fr.get("split") and len(fr["split"]) > 1 and s.chance(0.25):
        # files that come from different runs of the ocean model: each counts from its own reference time
        if s.chance(0.5):
            fr["time_units_per_file"] = [s.pick(["epoch", "y2000", "hours", "days"]) for _ in fr["split"]]
        else:
            # ... each reference a while before that of the previous file: the raw numbers still increase
            # from file to file although they do not count from the same instant
            step_min = s.pick([7, 60, 180, 1440])
            fr["time_units_per_file"] = [f"back{k * step_min}" for k in range(len(fr["split"]))]
    if s.chance(p["p_packed"]):
        fr["storage"] = "i2"
        # each component packed to its own range, as ROMS post-processing does
        fr["scale"] = [s.pick([1.0e-4, 5.0e-5, 2.5e-4]), s.pick([1.0e-4, 2.0e-4, 2.5e-5])]
    if fr.get("split") and s.chance(0.35):
        # every file written (and packed) on its own: own scale factors, packed and float files mixed
        fr["per_file"] = [
            {"storage": s.pick(["i2", "i2", "f4"]),
             "scale": [s.pick([1.0e-4, 5.0e-5, 2.5e-4, 2.0e-5]), s.pick([1.0e-4, 2.0e-4, 2.5e-5, 4.0e-5])]}
            for _ in fr["split"]
        ]
    return fr


def _flow(s: Stream, p, sc, nframes: int) -> dict:
    jm, im = truth.dims(sc)
    dx, dy = truth.metric(sc)
    dt = truth.dt_s(sc)
    cfl = s.uniform(*p["cfl"])
    umax = cfl * float(dx.min()) / dt      # m/s giving at most cfl cells per step
    vmax = cfl * float(dy.min()) / dt
    kind = s.wpick(list(p["flow_kinds"]))
    fl: dict = {"kind": kind}
    xc, yc = round(im / 2 + s.uniform(-1, 1), 2), round(jm / 2 + s.uniform(-1, 1), 2)
    same_u = stream(int(cfl * 1e9), "gen.same_u").chance(p.get("p_u_constant_in_time", 0.08))
    if kind == "const":
        fl["u0"] = round(s.uniform(-1, 1) * umax, 6)
        fl["v0"] = round(s.uniform(-1, 1) * vmax, 6)
    elif kind == "linear":
        fl.update(xc=xc, yc=yc)
        fl["u0"] = round(s.uniform(-0.5, 0.5) * umax, 6)
        fl["v0"] = round(s.uniform(-0.5, 0.5) * vmax, 6)
        for k, mx in (("ux", umax), ("uy", umax), ("vx", vmax), ("vy", vmax)):
            fl[k] = round(s.uniform(-0.5, 0.5) * mx / (max(im, jm) / 2), 7)
    elif kind == "rot":
        fl.update(xc=xc, yc=yc)
        r = max(im, jm) / 2
        fl["scale"] = 1000.0
        fl["om"] = round(s.uniform(-1, 1) * min(umax, vmax) / (r * 1000.0), 9)
    elif kind == "sinus":
        for c, mx in (("u", umax), ("v", vmax)):
            fl[c + "0"] = round(s.uniform(-0.3, 0.3) * mx, 6)
            fl[c + "w"] = [
                [round(s.uniform(0.1, 0.35) * mx, 6), round(s.uniform(0.2, 1.2), 3),
                 round(s.uniform(0.2, 1.2), 3), round(s.uniform(0, 6.28), 3)]
                for _ in range(s.randint(1, 2))
            ]
    if s.chance(p["p_time_dependent"]):
        # amplitudes deliberately not linear in the frame index; at least 5 % apart
        for c in ("u", "v"):
            amps, prev = [], None
            for _ in range(nframes):
                for _try in range(10):
                    a = round(s.uniform(0.35, 1.0) * s.pick([1, 1, 1, -1]), 3)
                    if prev is None or abs(a - prev) > 0.08:
                        break
                amps.append(a)
                prev = a
            fl["amp_" + c] = amps
        if same_u:
            # a current whose u-component does not change from frame to frame while v does (a tidal channel)
            fl["amp_u"] = [fl["amp_u"][0]] * nframes
    N = truth.vert(sc)["N"]
    if N > 1 and s.chance(p["p_levels"]):
        fl["levels"] = [round(s.uniform(0.3, 1.0), 3) for _ in range(N)]
    scal = []
    if s.chance(p["p_temp"]):
        scal.append("temp")
    if s.chance(p["p_w"]):
        scal.append("w")
        fl["w"] = {"w0": 0.0}  # filled by the caller who knows the depth
    if scal:
        fl["scalars"] = scal
        jm_, im_ = truth.dims(sc)
        if "temp" in scal and nframes * N * jm_ * im_ < 32000 and s.chance(0.35):
            sc["frames"]["scalar_packed"] = True     # int16 with scale_factor and add_offset
    return fl


def sea_cells(sc, margin: float = 0.0) -> list[tuple[int, int]]:
    """cells (i, j) whose centre lies in the valid region and that are sea"""
    m = truth.mask_rho(sc)
    xlo, xhi, ylo, yhi = truth.valid_region(sc)
    out = []
    jm, im = m.shape
    for j in range(jm):
        for i in range(im):
            if m[j, i] and xlo + margin < i < xhi - margin and ylo + margin < j < yhi - margin:
                out.append((i, j))
    return out


def _position(s: Stream, p, sc, cells) -> tuple[float, float]:
    xlo, xhi, ylo, yhi = truth.valid_region(sc)
    i, j = s.pick(cells)
    if s.chance(p["p_edge_positions"]):
        ox = s.pick([-0.5, 0.0, 0.5, 0.25])
        oy = s.pick([-0.5, 0.0, 0.5, -0.25])
    else:
        ox, oy = round(s.uniform(-0.49, 0.49), 3), round(s.uniform(-0.49, 0.49), 3)
    x, y = i + ox, j + oy
    eps = 1e-3
    x = min(max(x, xlo + eps), xhi - eps)
    y = min(max(y, ylo + eps), yhi - eps)
    return round(x, 4), round(y, 4)


def _level_depths_as_loaded(sc, j: int, i: int):
    """depths of the rho levels of cell (j, i) exactly as the code under test computes them from the
    files the world writer produces (used only to craft an input that sits exactly on a level)"""
    try:
        from ladim.ROMS import s_stretch, sdepth
    except Exception:  # noqa: BLE001
        return None
    v = truth.vert(sc)
    if v.get("source") == "vinfo":
        C = s_stretch(v["N"], v["theta_s"], v["theta_b"], stagger="rho", Vstretching=v["Vstretching"])
    else:
        C = truth.stretching(v["N"], v["theta_s"], v["theta_b"], v["Vstretching"])
    H = truth.bathymetry(sc)[j:j + 1, i:i + 1]
    return sdepth(H, float(v["hc"]), C, stagger="rho", Vtransform=v["Vtransform"])[:, 0, 0]


def _depth(s: Stream, sc, x: float, y: float) -> float:
    h = truth.bathymetry(sc)
    j, i = int(round(y)), int(round(x))
    hh = float(h[j, i])
    r = s.random()
    if r < 0.1:
        return 0.0
    if r < 0.2:
        return round(hh, 6)
    if r < 0.32:
        zr = _level_depths_as_loaded(sc, j, i)
        if zr is not None:
            k = s.pick([0, len(zr) - 1, s.randrange(len(zr))])
            return float(-zr[k])          # exactly on an s-level (top, bottom or any)
    return round(s.uniform(0.0, hh), 3)


def _release(s: Stream, p, sc) -> dict:
    T = sc["time"]
    nsteps = T["nsteps"]
    cells = sea_cells(sc)
    rel: dict = {"rows": [], "extra": [{"name": "tag", "type": "int"}]}
    cont = s.chance(p["p_continuous"]) and nsteps >= 2
    nrows = s.randint(*p["rows"])
    if cont:
        freq = s.randint(1, max(1, min(6, nsteps)))
        rel["continuous"] = True
        rel["freq_steps"] = freq
        ntimes = s.randint(1, 3)
        first = -freq * s.randint(0, 2) if s.chance(0.3) else 0
        times = sorted({first + freq * s.randint(0, max(0, (nsteps - 1) // freq)) for _ in range(ntimes)} | {first})
    else:
        times = [0]
        if s.chance(p["p_late_rows"]):
            times += [s.randint(0, max(0, nsteps - 1)) for _ in range(s.randint(1, 3))]
        if s.chance(p["p_rows_outside"]):
            times += s.sample([-2, -1, nsteps, nsteps + 1, nsteps + 3], s.randint(1, 2))
        times = sorted(set(times))
    if s.chance(p["p_extra_float"]):
        rel["extra"].append({"name": "fvar", "type": "float"})
    if s.chance(p["p_extra_time"]):
        rel["extra"].append({"name": "tvar", "type": "time", "particle": True})
    tag = 0
    for t in times:
        k = s.randint(1, max(1, nrows // max(1, len(times)) + 1))
        for _ in range(k):
            x, y = _position(s, p, sc, cells)
            row = {"step": t, "mult": s.wpick(list(p["mult"])), "X": x, "Y": y,
                   "Z": _depth(s, sc, x, y), "tag": tag}
            for c in rel["extra"]:
                if c["name"] == "fvar":
                    row["fvar"] = round(s.uniform(-5, 5), 3)
                elif c["name"] == "tvar":
                    row["tvar"] = s.randint(-20, 20)
            rel["rows"].append(row)
            tag += 1
    # at least one particle in the window at a time the model can release it
    inwin = [r for r in rel["rows"] if 0 <= r["step"] < nsteps and r["mult"] > 0]
    if not inwin:
        r0 = min(rel["rows"], key=lambda r: abs(r["step"]))
        r0["step"] = times[0] if cont else 0
        r0["mult"] = max(1, r0["mult"])
    rel["header"] = s.chance(p["p_header"])
    if s.chance(0.4):
        rel["time_styles"] = [s.pick(["T", "space", "short"]) for _ in range(3)]
    if not s.chance(0.85):
        # no mult column: only legal if every row has mult 1
        if all(r["mult"] == 1 for r in rel["rows"]):
            rel["mult_column"] = False
    if s.chance(0.3):
        ncols = (1 if rel.get("mult_column", True) else 0) + 4 + len(rel["extra"])
        order = list(range(ncols))
        s.shuffle(order)
        rel["col_order"] = order
    return rel


def _ibm(s: Stream, p, sc) -> dict:
    if not s.chance(p["p_ibm"]):
        return {}
    nsteps = sc["time"]["nsteps"]
    tags = [r["tag"] for r in sc["release"]["rows"]]
    ibm: dict = {"age": True}
    if s.chance(p["p_kills"]):
        kills = {}
        for _ in range(s.randint(1, 3)):
            kills.setdefault(str(s.randint(0, max(0, nsteps - 1))), []).append(s.pick(tags))
        ibm["kills"] = {k: sorted(set(v)) for k, v in kills.items()}
    if s.chance(p["p_deact"]):
        st = s.randint(0, max(0, nsteps - 1))
        ibm["deact"] = {str(st): [s.pick(tags)]}
        if s.chance(0.5):
            ibm["act"] = {str(min(nsteps - 1, st + s.randint(1, 4))): ibm["deact"][str(st)]}
    if s.chance(p["p_lifetime"]):
        ibm["lifetime"] = s.randint(2, max(2, nsteps))
    if "temp" in sc["flow"].get("scalars", []) and s.chance(p["p_weight"]):
        ibm["weight"] = True
    if s.chance(p.get("p_dose", 0.3)):
        ibm["dose"] = True
    return ibm


def _output(s: Stream, p, sc) -> dict:
    nsteps = sc["time"]["nsteps"]
    out: dict = {"period": s.randint(*p["period"])}
    if s.chance(p["p_numrec"]):
        out["numrec"] = s.randint(*p["numrec"])
    else:
        out["numrec"] = 0
    if s.chance(p["p_dense"]):
        out["layout"] = "dense"
    f = "f4" if s.chance(p["p_f4"]) else "f8"
    iv = {"pid": "i4", "X": f, "Y": f, "Z": f, "tag": "i4"}
    from ladsim.world import state_types

    ivars, pvars, _ = state_types(sc)
    for name, t in ivars.items():
        if name == "tag":
            continue
        if s.chance(0.8):
            iv[name] = "i4" if t == "int" else f
    if s.chance(p["p_lonlat_out"]):
        iv["lon"] = "f8"
        iv["lat"] = "f8"
    out["ivars"] = iv
    pv = {}
    if s.chance(p["p_release_time_pvar"]):
        out["release_time_pvar"] = True
    ivars, pvars, _ = state_types({**sc, "output": out})
    for name, t in pvars.items():
        if s.chance(0.85) or name == "release_time":
            pv[name] = "f8" if t in ("time", "float") else "i4"
    if pv:
        out["pvars"] = pv
    return out


def gen_scenario(seed: int, p: dict | None = None) -> dict:
    p = profile() if p is None else p
    s = stream(seed, "gen")
    sc: dict = {"world": "roms"}
    # --- time
    dt = s.pick(list(p["dts"]))
    nsteps = s.randint(*p["nsteps"])
    rev = s.chance(p["p_reversed"])
    day = s.randint(0, 3000)
    sec = dt * s.randint(0, max(0, 86400 // dt - 1))
    start = np.datetime64("2000-01-01T00:00:00", "s") + np.timedelta64(day, "D") + np.timedelta64(sec, "s")
    T = {"start": str(start), "dt": dt, "nsteps": nsteps}
    if rev:
        T["reversed"] = True
    if s.chance(p["p_stop_extra"]) and dt > 1:
        T["stop_extra"] = s.randint(1, dt - 1)
    if s.chance(p["p_reference"]):
        # up to a century before the run (more than 2**31 seconds) or some years after it
        T["reference"] = str(np.datetime64("1900-01-01T00:00:00", "s")
                             + np.timedelta64(s.randint(0, 45600), "D")
                             + np.timedelta64(s.randint(0, 86399), "s"))
    if T.get("reference"):
        ra = stream(seed, "gen.ref_aligned")
        if ra.chance(0.5):
            # a reference time on the model's own step lattice (a whole number of steps, not of output periods, away)
            k = ra.randint(-2000, min(400000, int(2.5e9 // dt)))     # at most some eighty years before the run
            T["reference"] = str(start - np.timedelta64(k * dt, "s"))
    sc["time"] = T
    if stream(seed, "gen.native_times").chance(p.get("p_native_times", 0.3)):
        sc["native_times"] = True
    # --- grid
    im, jm = s.randint(*p["grid_i"]), s.randint(*p["grid_j"])
    if stream(seed, "gen.biggrid").chance(p.get("p_big_grid", 0.015)):
        im, jm = im + 250, jm + 130        # more than 2**15 cells: flat indices no longer fit 16 bits
        big = True
    else:
        big = False
    huge = stream(seed, "gen.hugegrid").chance(p.get("p_huge_grid", 0.0))
    if huge:
        hs = stream(seed, "gen.hugegrid.dims")
        im, jm = 840 + hs.randint(0, 20), 840 + hs.randint(0, 20)    # with three levels: more than 2**21 field points
        big = True
    g: dict = {"imax0": im, "jmax0": jm}
    g["mask"] = _mask(s, p, jm, im)
    if s.chance(p["p_bathy_var"]):
        if s.chance(0.5):
            g["h"] = {"kind": "slope", "h0": round(s.uniform(10, 300), 1),
                      "ax": round(s.uniform(-8, 8), 2), "ay": round(s.uniform(-8, 8), 2)}
        else:
            g["h"] = {"kind": "bumpy", "h0": round(s.uniform(20, 2000), 1),
                      "amp": round(s.uniform(0.1, 0.6), 2), "kx": round(s.uniform(0.3, 1.5), 2),
                      "ky": round(s.uniform(0.3, 1.5), 2), "ph": round(s.uniform(0, 3), 2)}
    else:
        g["h"] = {"kind": "flat", "h0": round(s.uniform(5, 500), 1)}
    dx = s.pick([200.0, 800.0, 1000.0, 4000.0, 20000.0])
    if s.chance(p["p_metric_vary"]):
        g["metric"] = {"kind": "vary", "dx": dx, "ax": round(s.uniform(-0.02, 0.02), 4),
                       "ay": round(s.uniform(-0.02, 0.02), 4),
                       "ratio": s.pick([1.0, 0.5, 2.0, 1.25]) if s.chance(p["p_metric_aniso"]) else 1.0}
    else:
        g["metric"] = {"kind": "const", "dx": dx,
                       "dy": dx * s.pick([0.5, 2.0, 0.8]) if s.chance(p["p_metric_aniso"]) else dx}
    if big:
        # grid spacing that varies gently over the whole (large) grid
        bs = stream(seed, "gen.biggrid.metric")
        g["metric"] = {"kind": "vary", "dx": dx, "ax": round(bs.uniform(-0.8, 0.8) / im, 6),
                       "ay": round(bs.uniform(-0.8, 0.8) / jm, 6), "ratio": bs.pick([1.0, 0.5, 2.0])}
    N = s.randint(*p["N"])
    if huge:
        N = max(N, 3)
    v = {"N": N, "Vtransform": 2 if s.chance(p["p_vtransform2"]) else 1}
    v["Vstretching"] = s.pick([1, 2, 4]) if v["Vtransform"] == 2 else s.pick([1, 1, 2, 4])
    v["theta_s"] = round(s.uniform(0.5, 8.0), 2)
    v["theta_b"] = round(s.uniform(0.05, 1.0), 2) if v["Vstretching"] == 1 else round(s.uniform(0.1, 3.5), 2)
    v["hc"] = round(s.uniform(1.0, 20.0), 1)
    v["source"] = "vinfo" if s.chance(p["p_vinfo"]) else "file"
    if v["Vtransform"] == 1 and v["source"] == "file" and s.chance(0.3):
        v["write_vtransform"] = False      # old grid files carry no Vtransform variable
    g["vert"] = v
    sc["grid"] = g
    # Vtransform 1 requires hc <= hmin
    hmin = float(truth.bathymetry(sc).min())
    if v["Vtransform"] == 1 and v["hc"] > hmin:
        v["hc"] = round(max(0.5, 0.8 * hmin), 2)
    kind = s.wpick(list(p["lonlat_kinds"]))
    if kind == "linear":
        g["lonlat"] = {"kind": "linear", "lon0": round(s.uniform(-20, 20), 2), "lat0": round(s.uniform(40, 70), 2),
                       "a": round(s.uniform(0.01, 0.05), 4), "b": round(s.uniform(-0.01, 0.01), 4),
                       "c": round(s.uniform(-0.005, 0.005), 4), "d": round(s.uniform(0.005, 0.02), 4)}
    else:
        g["lonlat"] = {"kind": "stereo", "xp0": round(s.uniform(-500, 500), 1),
                       "yp0": round(s.uniform(-3500, -2000), 1), "dxs": s.pick([0.8, 4.0, 20.0]),
                       "rot": round(s.uniform(-40, 40), 1), "lon_c": round(s.uniform(0, 60), 1)}
    if big and g["lonlat"]["kind"] == "stereo" and g["lonlat"]["dxs"] > 4.0:
        # 265 cells at 20 km would be a 5300 km patch that runs over the pole: not a grid of realistic resolution
        g["lonlat"]["dxs"] = 4.0 if not huge else 0.8
    if huge and g["lonlat"]["kind"] == "stereo":
        g["lonlat"]["dxs"] = 0.8
    env = stream(seed, "gen.environment")
    if env.chance(p.get("p_h_integer", 0.08)):
        g["h_store"] = env.pick(["i4", "i2"])
    if env.chance(p.get("p_staggered_masks", 0.5)):
        g["staggered_masks"] = True
    g["subgrid"] = _subgrid(s, p, jm, im)
    if len(sea_cells(sc)) < 4:
        g["mask"] = "open"
    # --- frames
    sc["frames"] = _frames(s, p, nsteps, rev, "stop_extra" in T)
    if (truth.mask_rho(sc) == 0).any() and stream(seed, "gen.landfill").chance(p.get("p_land_fill", 0.25)):
        sc["frames"]["land_fill"] = True        # fill values (1e37) on land faces and in land cells of the forcing
    # --- flow
    sc["flow"] = _flow(s, p, sc, len(sc["frames"]["offsets"]))
    # --- release, ibm, tracker, output
    sc["release"] = _release(s, p, sc)
    if big:
        # half of the particles in the northernmost rows (cells with the largest flat index)
        bs = stream(seed, "gen.biggrid.rows")
        m_ = truth.mask_rho(sc)
        xlo_, xhi_, ylo_, yhi_ = truth.valid_region(sc)
        for r in sc["release"]["rows"]:
            if bs.chance(0.5):
                y = round(bs.uniform(max(ylo_, yhi_ - 8), yhi_ - 0.3), 3)
                if m_[int(round(y)), int(round(r["X"]))] and abs(y - round(y)) != 0.5:
                    r["Y"] = y
                    hh = float(truth.bathymetry(sc)[int(round(y)), int(round(r["X"]))])
                    r["Z"] = min(r["Z"], round(hh * 0.9, 3))
    sc["ibm"] = _ibm(s, p, sc)
    tr: dict = {"advection": s.wpick(list(p["schemes"]))}
    dxm = float(truth.metric(sc)[0].min())
    if s.chance(p["p_diffusion"]):
        # rms step 0.05 .. 0.3 cells
        r = s.uniform(0.05, 0.3) * dxm
        tr["diffusion"] = float(f"{r * r / (2 * dt):.6g}")
    hmin = float(truth.bathymetry(sc).min())
    if s.chance(p["p_vertdiff"]):
        r = s.uniform(0.01, 0.08) * hmin
        tr["vertdiff"] = float(f"{r * r / (2 * dt):.6g}")
    if "w" in sc["flow"].get("scalars", []):
        sc["flow"]["w"] = {"w0": round(s.uniform(-0.3, 0.3) * hmin / dt, 8)}
        if s.chance(0.8):
            tr["vertical_advection"] = True
    sc["tracker"] = tr
    sc["output"] = {"period": 1, "ivars": {}}
    sc["output"] = _output(s, p, sc)
    sc["spelling"] = s.wpick(list(p["spellings"]))
    sp = {}
    from ladsim.world import period_spellings

    if s.chance(0.5):
        sp["dt"] = s.pick(period_spellings(dt))
    if s.chance(0.5):
        sp["period"] = s.pick(period_spellings(dt * sc["output"]["period"]))
    if sc["release"].get("continuous") and s.chance(0.5):
        sp["freq"] = s.pick(period_spellings(dt * sc["release"]["freq_steps"]))
    if sp:
        sc["spell"] = sp
    return sc


# --------------------------------------------------------------------------
# features of a scenario (used for evidence, known findings and shrinking)
# --------------------------------------------------------------------------


def features(sc) -> set[str]:
    f: set[str] = set()
    T, g, fr, fl = sc["time"], sc["grid"], sc["frames"], sc["flow"]
    rel, out, tr, ibm = sc["release"], sc["output"], sc.get("tracker", {}), sc.get("ibm", {})
    if T.get("reversed"):
        f.add("reversed")
    if T.get("stop_extra"):
        f.add("stop_off_grid")
    if T.get("reference"):
        f.add("reference")
    offs = fr["offsets"]
    split = fr.get("split") or [len(offs)]
    if len(split) > 1:
        f.add("multi_file")
    if len(split) > 1 and all(x == 1 for x in split):
        f.add("one_frame_per_file")
    d = np.diff(offs)
    if len(d) and (d == 1).any():
        f.add("spacing_eq_dt")
    if len(d) and len(set(d.tolist())) > 1:
        f.add("irregular_frames")
    sg = truth.sgn(sc)
    steps = sorted(sg * o for o in offs)
    if 0 not in steps:
        f.add("start_between_frames")
    if fr.get("storage") == "i2" or any(x.get("storage") == "i2" for x in fr.get("per_file") or []):
        f.add("packed")
    if fr.get("per_file"):
        f.add("per_file_packing")
    if g.get("subgrid"):
        f.add("subgrid")
    if g.get("mask", "open") != "open":
        f.add("land")
    if g.get("h", {}).get("kind", "flat") != "flat":
        f.add("variable_bathymetry")
    m = g.get("metric", {})
    if (m.get("kind") == "const" and m.get("dy", m.get("dx")) != m.get("dx")) or m.get("ratio", 1.0) != 1.0:
        f.add("anisotropic_metric")
    if m.get("kind") == "vary":
        f.add("varying_metric")
    if truth.vert(sc)["N"] > 1:
        f.add("multi_level")
    if truth.vert(sc).get("source") == "vinfo":
        f.add("vinfo")
    if fl.get("levels"):
        f.add("depth_dependent_flow")
    if fl.get("amp_u") or fl.get("amp_v"):
        f.add("time_dependent_flow")
    if "temp" in fl.get("scalars", []):
        f.add("scalar_forcing")
    if rel.get("continuous"):
        f.add("continuous")
    if len({r["step"] for r in rel["rows"]}) > 1:
        f.add("several_release_times")
    if any(r["mult"] == 0 for r in rel["rows"]):
        f.add("mult_zero")
    if any(r["mult"] > 1 for r in rel["rows"]):
        f.add("mult_gt1")
    if len(rel.get("extra", [])) > 1:
        f.add("extra_columns")
    if rel.get("use_lonlat"):
        f.add("lonlat_release")
    if not rel.get("header", True):
        f.add("names_in_config")
    if out.get("layout") == "dense":
        f.add("dense")
    if out.get("numrec"):
        f.add("numrec")
    if T["nsteps"] % out["period"] != 0:
        f.add("nsteps_not_multiple_of_period")
    if out.get("pvars"):
        f.add("particle_variables")
    if any(c.get("type") == "time" for c in rel.get("extra", [])) or out.get("release_time_pvar"):
        f.add("time_particle_variable")
    if "lon" in out.get("ivars", {}):
        f.add("lonlat_output")
    if tr.get("vertical_advection"):
        f.add("vertical_advection")
    if tr.get("vertdiff"):
        f.add("vertdiff")
    if tr.get("diffusion"):
        f.add("diffusion")
    if tr.get("advection") == "RK2":
        f.add("rk2")
    if tr.get("advection") == "RK4":
        f.add("rk4")
    if ibm.get("kills") or ibm.get("kill_pids") or ibm.get("lifetime") is not None:
        f.add("death_ibm")
    if ibm.get("deact"):
        f.add("inactive")
    if sc.get("spelling") == "toml2":
        f.add("toml")
    if sc.get("frames", {}).get("land_fill"):
        f.add("land_fill")
    if g.get("h_store"):
        f.add("integer_bathymetry")
    if g.get("staggered_masks"):
        f.add("staggered_masks")
    return f


def make_restartable(sc, f8: bool = True) -> dict:
    """A run can only be continued from its output if the output holds the whole state:
    every state variable becomes an output variable (premise of C08, used by C19 too)."""
    from ladsim.world import state_types

    sc.get("ibm", {}).pop("deact", None)     # the activity flag is not part of LADiM's restart state
    sc.get("ibm", {}).pop("act", None)
    out = sc["output"]
    out.pop("layout", None)
    f = "f8" if f8 else None
    ivars, pvars, _ = state_types(sc)
    for k in ("X", "Y", "Z"):
        if f8:
            out["ivars"][k] = "f8"
    for name, t in ivars.items():
        if name in ("lon", "lat"):
            continue
        cur = out["ivars"].get(name)
        out["ivars"][name] = "i4" if t == "int" else (f or cur or "f8")
    if pvars:
        out.setdefault("pvars", {})
        for name, t in pvars.items():
            out["pvars"][name] = "f8" if t in ("time", "float") else "i4"
    return sc
