"""Recorder: what the recording shims write into while a simulated run proceeds.

One Recorder per Model.  The shims (plugins/shim.py, plugins/script_ibm.py) are
loaded by LADiM's own plug-in mechanism and call into ``REC``.  The recorder
observes only the documented surface of the modules (see DESIGN.md section 5).
Nothing here draws random numbers or reads a clock.
"""

from __future__ import annotations

import numpy as np

REC: "Recorder | None" = None


class Recorder:
    def __init__(self, probe_fracs=(), snap: bool = True, monitors=()) -> None:
        self.calls: list[tuple[str, str, int]] = []   # (module, method, timer.step)
        self.inits: list[str] = []
        self.snaps: list[dict] = []                   # ordered snapshots
        self.probes: list[dict] = []                  # forcing probes after update
        self.velocity_calls: list[dict] = []          # calls made by the tracker
        self.modules: dict | None = None
        self.probe_fracs = tuple(probe_fracs)
        self.snap_on = snap
        self.monitors = list(monitors)                # callables(label, rec)
        self.in_tracker = False
        self.in_probe = False
        self.plugin_marks: list[str] = []
        self.state_ops: list[tuple] = []

    # -- helpers -----------------------------------------------------------
    def _step(self) -> int:
        try:
            return int(self.modules["time"].step)
        except Exception:
            return -99

    def on_init(self, name: str, obj, modules) -> None:
        if modules is not None and self.modules is None:
            self.modules = modules
        self.inits.append(name)

    def call(self, name: str, method: str) -> None:
        self.calls.append((name, method, self._step()))

    def snapshot(self, label: str) -> dict | None:
        if not self.snap_on or self.modules is None or "state" not in self.modules:
            return None
        state = self.modules["state"]
        timer = self.modules.get("time")
        snap = {
            "label": label,
            "step": int(timer.step) if timer is not None else None,
            "time": np.datetime64(timer.time, "s") if timer is not None else None,
            "npid": int(state.npid),
            "n": len(state),
            "vars": {k: np.array(v, copy=True) for k, v in state.variables.items()},
            "ivars": sorted(state.instance_variables),
            "pvars": sorted(state.particle_variables),
        }
        self.snaps.append(snap)
        for m in self.monitors:
            m(label, snap, self)
        return snap

    def probe_forcing(self) -> None:
        """after forcing.update: evaluate the public velocity() at the particles"""
        if not self.probe_fracs or self.modules is None:
            return
        state = self.modules["state"]
        force = self.modules["forcing"]
        X = np.array(state.X, dtype=float, copy=True)
        Y = np.array(state.Y, dtype=float, copy=True)
        Z = np.array(state.Z, dtype=float, copy=True)
        rec = {"step": self._step(), "X": X, "Y": Y, "Z": Z, "vel": {}, "vars": {}}
        self.in_probe = True
        try:
            if len(X):
                for f in self.probe_fracs:
                    U, V = force.velocity(X.copy(), Y.copy(), Z.copy(), fractional_step=f)
                    rec["vel"][f] = (np.array(U, dtype=float, copy=True),
                                     np.array(V, dtype=float, copy=True))
            for k, v in getattr(force, "variables", {}).items():
                rec["vars"][k] = np.array(v, copy=True)
        finally:
            self.in_probe = False
        self.probes.append(rec)

    def velocity_call(self, X, Y, Z, fractional_step, result) -> None:
        if self.in_probe:
            return
        self.velocity_calls.append({
            "step": self._step(),
            "in_tracker": self.in_tracker,
            "X": np.array(X, dtype=float, copy=True),
            "Y": np.array(Y, dtype=float, copy=True),
            "Z": np.array(Z, dtype=float, copy=True),
            "frac": float(fractional_step),
            "U": np.array(result[0], dtype=float, copy=True),
            "V": np.array(result[1], dtype=float, copy=True),
        })

    # -- queries -----------------------------------------------------------
    def snaps_at(self, label: str) -> list[dict]:
        return [s for s in self.snaps if s["label"] == label]

    def record_snaps(self, period: int) -> list[dict]:
        """state at the moment Output.update was entered, for the steps at which a record is due
        (step % period == 0); relies only on the abstract BaseOutput interface (update)"""
        return [s for s in self.snaps if s["label"] == "output.pre" and s["step"] is not None
                and s["step"] >= 0 and s["step"] % period == 0]

    def records_due(self, period: int) -> int:
        return len([c for c in self.calls if c[0] == "output" and c[1] == "update" and c[2] >= 0 and c[2] % period == 0])

    def snap_by_step(self, label: str) -> dict:
        return {s["step"]: s for s in self.snaps if s["label"] == label}
