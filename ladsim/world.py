"""Scenario -> files on a scratch directory (tmpfs): grid, forcing, release, config."""

from __future__ import annotations

import datetime
import json
import os
import shutil
import tempfile
from pathlib import Path

import numpy as np
from netCDF4 import Dataset

from ladsim import truth

HERE = Path(__file__).resolve().parent
PLUGIN_DIR = HERE / "plugins"
SCRATCH_ROOT = "/dev/shm" if os.path.isdir("/dev/shm") else tempfile.gettempdir()

_counter = [0]


def new_dir(prefix: str = "ladsim") -> Path:
    _counter[0] += 1
    d = Path(SCRATCH_ROOT) / f"{prefix}-{os.getpid()}-{_counter[0]}"
    if d.exists():
        shutil.rmtree(d)
    d.mkdir(parents=True)
    return d


def rm_dir(d) -> None:
    shutil.rmtree(d, ignore_errors=True)


def sweep_dead(prefix: str = "ladsim") -> int:
    """remove scratch worlds left behind by processes that no longer exist (killed workers, interrupted runs)"""
    n = 0
    for d in Path(SCRATCH_ROOT).glob(f"{prefix}-*-*"):
        try:
            pid = int(d.name.split("-")[1])
        except (IndexError, ValueError):
            continue
        try:
            os.kill(pid, 0)
        except ProcessLookupError:
            shutil.rmtree(d, ignore_errors=True)
            n += 1
        except PermissionError:
            pass
    return n


# --------------------------------------------------------------------------
# NetCDF: grid and forcing
# --------------------------------------------------------------------------


def _write_grid_vars(nc: Dataset, sc, dims_only: bool = False) -> None:
    jm, im = truth.dims(sc)
    v = truth.vert(sc)
    N = v["N"]
    nc.createDimension("xi_rho", im)
    nc.createDimension("eta_rho", jm)
    nc.createDimension("xi_u", im - 1)
    nc.createDimension("eta_u", jm)
    nc.createDimension("xi_v", im)
    nc.createDimension("eta_v", jm - 1)
    nc.createDimension("s_rho", N)
    nc.createDimension("s_w", N + 1)
    if dims_only:
        return
    dx, dy = truth.metric(sc)
    lon, lat = truth.lonlat(sc)

    def put(name, data, dims, dtype="f8"):
        var = nc.createVariable(name, dtype, dims)
        var[...] = data
        return var

    put("h", truth.bathymetry(sc), ("eta_rho", "xi_rho"), sc["grid"].get("h_store", "f8"))
    put("mask_rho", truth.mask_rho(sc).astype(float), ("eta_rho", "xi_rho"))
    if sc["grid"].get("staggered_masks"):
        # ROMS grid and history files carry the masks of the staggered points as well
        mu, mv = truth.face_masks(sc)
        put("mask_u", mu.astype(float), ("eta_u", "xi_u"))
        put("mask_v", mv.astype(float), ("eta_v", "xi_v"))
    put("pm", 1.0 / dx, ("eta_rho", "xi_rho"))
    put("pn", 1.0 / dy, ("eta_rho", "xi_rho"))
    put("lon_rho", lon, ("eta_rho", "xi_rho"))
    put("lat_rho", lat, ("eta_rho", "xi_rho"))
    put("angle", np.zeros((jm, im)), ("eta_rho", "xi_rho"))
    if v.get("source", "file") == "file":
        put("hc", float(v["hc"]), ())
        put("Cs_r", truth.stretching(N, v["theta_s"], v["theta_b"], v["Vstretching"]),
            ("s_rho",))
        put("Cs_w", truth.stretching(N, v["theta_s"], v["theta_b"], v["Vstretching"],
                                     w=True), ("s_w",))
        if v["Vtransform"] != 1 or v.get("write_vtransform", True):
            put("Vtransform", int(v["Vtransform"]), (), "i4")


def write_grid_file(path: Path, sc) -> None:
    with Dataset(path, "w", format="NETCDF4") as nc:
        _write_grid_vars(nc, sc)


def frame_partition(sc) -> list[list[int]]:
    """frame indices per forcing file"""
    n = len(truth.frame_offsets(sc))
    split = sc["frames"].get("split") or [n]
    assert sum(split) == n, (split, n)
    out, k = [], 0
    for m in split:
        out.append(list(range(k, k + m)))
        k += m
    return out


def forcing_file_names(sc) -> list[str]:
    names = sc["frames"].get("names")
    nfiles = len(frame_partition(sc))
    if names:
        assert len(names) == nfiles
        return list(names)
    return [f"forcing_{k:03d}.nc" for k in range(nfiles)]


def time_units(sc, file_index: int = 0):
    """unit and reference time of ocean_time in a forcing file (seconds, whole hours or float days);
    'time_units_per_file' gives every file its own (files of several model runs chained together)"""
    tu = sc["frames"].get("time_units", "epoch")
    per = sc["frames"].get("time_units_per_file")
    if per:
        tu = per[file_index % len(per)]
    if tu == "year1":
        # ROMS with TIME_REF = 0 counts from 0001-01-01 in the standard (mixed Julian/Gregorian) calendar
        return "seconds_year1", np.datetime64("0001-01-01T00:00:00", "s")
    if tu.startswith("back"):       # seconds since a reference that many minutes before 2000-01-01
        return "seconds", np.datetime64("2000-01-01T00:00:00", "s") - np.timedelta64(int(tu[4:]) * 60, "s")
    if tu == "epoch":
        return "seconds", truth.EPOCH
    if tu == "y2000":
        return "seconds", np.datetime64("2000-01-01T00:00:00", "s")
    if tu in ("days", "days1948"):
        # ROMS-style float days since a reference date: frame times that are not binary fractions of a day
        # are stored with a rounding error of some nanoseconds (the reader has to round, not truncate)
        return "days", np.datetime64("1970-01-01T00:00:00" if tu == "days" else "1948-01-01T00:00:00", "s")
    if tu == "hours":
        tref = np.datetime64("1990-01-01T00:00:00", "s")
        secs = [int((t - tref) / np.timedelta64(1, "s")) for t in truth.frame_times(sc)]
        if all(x % 3600 == 0 for x in secs):
            return "hours", tref
        return "seconds", tref
    raise ValueError(tu)


def write_forcing_file(path: Path, sc, frames: list[int], times=None, file_index: int | None = None) -> None:
    """times: optional override of the ocean_time values (epoch seconds) for faults"""
    ftimes = truth.frame_times(sc)
    if file_index is None:
        # the file a list of frames belongs to: the one holding most of them (fault files carry a foreign frame)
        idx = [truth.file_of_frame(sc, f) for f in frames]
        file_index = max(set(idx), key=idx.count)
    with Dataset(path, "w", format="NETCDF4") as nc:
        _write_grid_vars(nc, sc, dims_only=(bool(sc["frames"].get("grid_in_first_only")) and file_index > 0)
                         or bool(sc["frames"].get("no_grid_in_forcing")))
        nc.createDimension("ocean_time", None)
        tv = nc.createVariable("ocean_time", "f8", ("ocean_time",))
        packed = truth.file_storage(sc, file_index)[0] == "i2"
        dt_ = "i2" if packed else "f4"
        uv = nc.createVariable("u", dt_, ("ocean_time", "s_rho", "eta_u", "xi_u"))
        vv = nc.createVariable("v", dt_, ("ocean_time", "s_rho", "eta_v", "xi_v"))
        uv.set_auto_maskandscale(False)
        vv.set_auto_maskandscale(False)
        if packed:
            for var, comp in ((uv, "u"), (vv, "v")):
                var.scale_factor = np.float32(truth.pack_scale(sc, comp, file_index))
                var.add_offset = np.float32(0.0)
        svars = {}
        spacked = bool(sc["frames"].get("scalar_packed"))
        for name in truth.scalar_names(sc):
            pk = spacked and name != "w"
            svars[name] = nc.createVariable(
                name, "i2" if pk else "f4", ("ocean_time", "s_rho", "eta_rho", "xi_rho")
            )
            svars[name].set_auto_maskandscale(False)
            if pk:   # value = add_offset + scale_factor * stored, exactly the float32 ground truth
                svars[name].scale_factor = np.float32(0.0625)
                svars[name].add_offset = np.float32(truth.scalar_offset(name))
        unit, tref = time_units(sc, file_index)
        year1 = unit == "seconds_year1"
        if year1:
            unit = "seconds"
            tv.calendar = "standard"
        tv.units = f"{unit} since {str(tref).replace('T', ' ')}"
        per = {"seconds": 1, "hours": 3600, "days": 86400}[unit]
        for n, f in enumerate(frames):
            if times is not None:
                tv[n] = times[n]
            elif year1:
                import cftime

                tv[n] = float(cftime.date2num(ftimes[f].astype("M8[s]").astype(datetime.datetime), tv.units, calendar="standard"))
            else:
                tv[n] = float((ftimes[f] - tref) / np.timedelta64(1, "s")) / per
            a, b, _ = truth.stored_uv(sc, f, file_index)
            uv[n] = a
            vv[n] = b
            for name, var in svars.items():
                if spacked and name != "w":
                    var[n] = truth.scalar_ident(sc, f).astype(np.int16)
                else:
                    var[n] = truth.truth_scalar(sc, name, f).astype(np.float32)


# --------------------------------------------------------------------------
# release file
# --------------------------------------------------------------------------


def release_columns(sc) -> list[str]:
    rel = sc["release"]
    cols = ["mult"] if rel.get("mult_column", True) else []
    cols.append("release_time")
    cols += ["lon", "lat"] if rel.get("use_lonlat") else ["X", "Y"]
    if rel.get("both_positions") and not rel.get("use_lonlat"):
        cols += ["lon", "lat"]     # "for information": if both are present the grid position is used (release.rst)
    if not rel.get("no_z"):     # a release file need not give a depth (doc/source/release.rst): the depth is then NaN
        cols.append("Z")
    cols += [c["name"] for c in rel.get("extra", [])]
    order = rel.get("col_order")
    if order:      # a permutation of the column positions
        assert sorted(order) == list(range(len(cols))), (order, cols)
        cols = [cols[k] for k in order]
    return cols


def _fmt_time(t: np.datetime64, style: str = "T") -> str:
    s = str(t)  # ISO: 2000-01-01T00:00:00
    if style == "space":
        return '"' + s.replace("T", " ") + '"'
    if style == "short":
        if s.endswith("T00:00:00"):
            return s[:10]
        if s.endswith(":00"):
            return s[:-3]
    return s


def release_row_time(sc, row) -> np.datetime64:
    """release time of a row; row['step'] counts model steps in simulation direction"""
    # 'off_s': seconds off the step grid (used by start-up faults only)
    return truth.t_start(sc) + truth.sgn(sc) * (int(row["step"]) * truth.dt_s(sc) + int(row.get("off_s", 0)))


def write_release_file(path: Path, sc) -> None:
    rel = sc["release"]
    cols = release_columns(sc)
    extra = {c["name"]: c for c in rel.get("extra", [])}
    lines = []
    if rel.get("header", True):
        lines.append(" ".join(cols))
    styles = rel.get("time_styles") or ["T"]
    for k, row in enumerate(rel["rows"]):
        items = []
        for c in cols:
            if c == "mult":
                items.append(str(int(row.get("mult", 1))))
            elif c == "release_time":
                items.append(_fmt_time(release_row_time(sc, row), styles[k % len(styles)]))
            elif c in ("X", "Y", "Z", "lon", "lat"):
                items.append(repr(float(row[c])))
            else:
                val = row.get(c, extra[c].get("default", 0))
                if extra[c]["type"] == "int":
                    items.append(str(int(val)))
                elif extra[c]["type"] == "time":
                    items.append(_fmt_time(truth.t_start(sc) + int(val) * truth.dt_s(sc)))
                else:
                    items.append("nan" if val is None else repr(float(val)))
        lines.append(" ".join(items))
    path.write_text("\n".join(lines) + "\n")


# --------------------------------------------------------------------------
# configuration
# --------------------------------------------------------------------------


def spell_period(seconds: int, how: str):
    """the accepted spellings of a period in a configuration file"""
    if how == "int":
        return int(seconds)
    if how == "list_s":
        return [int(seconds), "s"]
    if how == "list_m":
        assert seconds % 60 == 0
        return [seconds // 60, "m"]
    if how == "list_h":
        assert seconds % 3600 == 0
        return [seconds // 3600, "h"]
    if how == "iso":
        h, r = divmod(int(seconds), 3600)
        m, s = divmod(r, 60)
        out = "PT"
        if h:
            out += f"{h}H"
        if m:
            out += f"{m}M"
        if s or not (h or m):
            out += f"{s}S"
        return out
    if how == "iso_s":
        return f"PT{int(seconds)}S"
    raise ValueError(how)


def period_spellings(seconds: int) -> list[str]:
    out = ["int", "list_s", "iso", "iso_s"]
    if seconds % 60 == 0:
        out.append("list_m")
    if seconds % 3600 == 0:
        out.append("list_h")
    return out


NC_TYPES = {"i4": "i4", "i8": "i8", "f4": "f4", "f8": "f8", "i2": "i2"}


def state_types(sc) -> tuple[dict, dict, dict]:
    """instance variables, particle variables (name -> type name), default values"""
    ivars, pvars, defaults = {}, {}, {}
    for c in sc["release"].get("extra", []):
        tname = c["type"]
        if c.get("particle"):
            pvars[c["name"]] = tname
        else:
            ivars[c["name"]] = tname
        if "state_default" in c:
            # a default configured for a variable the release file supplies as well (legacy configurations give every
            # IBM variable the default 0): the value of the release row wins
            defaults[c["name"]] = c["state_default"]
    ibm = sc.get("ibm", {})
    if ibm.get("age"):
        ivars["age"] = "float"
        defaults["age"] = 0.0
    if ibm.get("weight"):
        ivars["weight"] = "float"
        defaults["weight"] = 0.0
    if ibm.get("dose"):
        ivars["dose"] = "float"
        defaults["dose"] = 0.0
    for name in truth.scalar_names(sc):
        # LADiM copies every extra forcing variable into the state: it has to be declared there
        if name not in ivars:
            ivars[name] = "float"
            defaults[name] = 0.0
    if "lon" in sc["output"].get("ivars", {}) or "lat" in sc["output"].get("ivars", {}):
        # LADiM writes lon/lat from state variables it then overwrites (examples/latlon)
        for name in ("lon", "lat"):
            ivars[name] = "float"
            defaults[name] = 0.0
    if sc["output"].get("release_time_pvar"):
        pvars["release_time"] = "time"
    return ivars, pvars, defaults


def build_config(sc, d: Path, shims: bool = True, warm_file: str | None = None,
                 out_name: str | None = None, stop: np.datetime64 | None = None) -> dict:
    """The version-2 configuration dictionary of the scenario (before spelling)"""
    T = sc["time"]
    sp = sc.get("spell", {})
    dt = truth.dt_s(sc)
    shim = str(PLUGIN_DIR / "shim.py")
    ivars, pvars, defaults = state_types(sc)

    cfg: dict = {"version": 2.0}
    time = {
        "stop": str(stop if stop is not None else truth.t_stop(sc)),
        "dt": spell_period(dt, sp.get("dt", "int")),
    }
    if not warm_file or sp.get("start_with_warm", False):
        time["start"] = str(truth.t_start(sc))
    if T.get("reference"):
        time["reference"] = str(np.datetime64(T["reference"], "s"))
    if T.get("reversed"):
        time["time_reversal"] = True
    cfg["time"] = time

    st: dict = {}
    if ivars:
        st["instance_variables"] = dict(ivars)
    if pvars:
        st["particle_variables"] = dict(pvars)
    if defaults:
        st["default_values"] = dict(defaults)
    cfg["state"] = st

    world = sc.get("world", "roms")
    if world == "roms":
        grid: dict = {"module": "ladim.ROMS", "filename": str(d / "grid.nc")}
        sg = sc["grid"].get("subgrid")
        if sg:
            grid["subgrid"] = list(sg)
        v = truth.vert(sc)
        if v.get("source") == "vinfo":
            grid["Vinfo"] = {k: v[k] for k in
                             ("N", "hc", "theta_s", "theta_b", "Vstretching", "Vtransform")}
        cfg["grid"] = grid
        names = forcing_file_names(sc)
        if len(names) == 1 and not sc["frames"].get("wildcard"):
            fname = str(d / names[0])
        else:
            fname = str(d / sc["frames"].get("pattern", "forcing_*.nc"))
        forcing: dict = {"module": "ladim.ROMS", "filename": fname}
        sn = truth.scalar_names(sc)
        if sn:
            forcing["extra_forcing"] = list(sn)
        cfg["forcing"] = forcing
    else:  # analytic plug-in world
        an = str(PLUGIN_DIR / "analytic.py")
        # configure_v2 wants a grid or forcing file name even for file-less plug-ins
        cfg["grid"] = {"module": an, "filename": "analytic", "spec": json.dumps(sc["analytic"])}
        cfg["forcing"] = {"module": an, "spec": json.dumps(sc["analytic"])}

    tr = sc.get("tracker", {})
    tracker: dict = {}
    if tr.get("advection", "EF"):
        tracker["advection"] = tr.get("advection", "EF")
    if tr.get("diffusion"):
        tracker["diffusion"] = tr["diffusion"]
    if tr.get("vertdiff"):
        tracker["vertdiff"] = tr["vertdiff"]
    if tr.get("vertical_advection"):
        tracker["vertical_advection"] = True
    cfg["tracker"] = tracker

    rel = sc["release"]
    release: dict = {"release_file": str(d / "release.rls")}
    if not rel.get("header", True):
        release["names"] = release_columns(sc)
    if rel.get("continuous"):
        release["continuous"] = True
        release["release_frequency"] = spell_period(
            int(rel["freq_steps"]) * dt, sp.get("freq", "int")
        )
    cfg["release"] = release

    ibm = sc.get("ibm", {})
    if ibm:
        script = dict(ibm)
        script.update(t0=str(truth.t_start(sc)), dt=dt, sgn=truth.sgn(sc))
        cfg["ibm"] = {"module": str(PLUGIN_DIR / "script_ibm.py"),
                      "script": json.dumps(script, sort_keys=True)}

    out = sc["output"]
    output: dict = {
        "filename": str(d / (out_name or out.get("filename", "out.nc"))),
        "output_period": spell_period(int(out["period"]) * dt, sp.get("period", "int")),
    }
    if out.get("numrec"):
        output["numrec"] = int(out["numrec"])
    if out.get("layout", "sparse") != "sparse":
        output["layout"] = out["layout"]
    inst = {}
    for name, nctype in out["ivars"].items():
        inst[name] = {"encoding": {"datatype": nctype},
                      "attributes": {"long_name": f"particle {name}"}}
        if name in out.get("packed", {}):
            # stored packed: integer type with a scale factor (examples/killer/dense.yaml packs X that way)
            inst[name]["attributes"]["scale_factor"] = float(out["packed"][name])
    output["instance_variables"] = inst
    part = {}
    for name, nctype in out.get("pvars", {}).items():
        att = {"long_name": f"particle {name}"}
        if pvars.get(name) == "time":
            att["units"] = "seconds since reference_time"
        part[name] = {"encoding": {"datatype": nctype}, "attributes": att}
    if part:
        output["particle_variables"] = part
    cfg["output"] = output

    if warm_file:
        wvars = [v for v in ivars if v in out["ivars"]]
        wvars += [v for v in pvars if v in out.get("pvars", {})]
        cfg["warm_start"] = {"filename": warm_file, "variables": wvars}

    if sc.get("native_times"):
        # unquoted timestamps: the YAML / TOML reader hands LADiM datetime objects (naive: no time zone is meant)
        for k in ("start", "stop", "reference"):
            if isinstance(cfg["time"].get(k), str):
                cfg["time"][k] = datetime.datetime.fromisoformat(cfg["time"][k])
    if shims:
        for sec in ("state", "time", "release", "tracker", "output"):
            cfg[sec]["module"] = shim
        if world == "roms":
            cfg["grid"]["module"] = shim
            cfg["forcing"]["module"] = shim
        if not ibm:
            cfg["ibm"] = {"module": shim}
    return cfg


# -- spellings -----------------------------------------------------------------


def _toml_value(v) -> str:
    if isinstance(v, bool):
        return "true" if v else "false"
    if isinstance(v, (int, float)):
        return repr(v)
    if isinstance(v, datetime.datetime):
        return v.isoformat()        # TOML local date-time
    if isinstance(v, str):
        return json.dumps(v)
    if isinstance(v, (list, tuple)):
        return "[" + ", ".join(_toml_value(x) for x in v) + "]"
    if isinstance(v, dict):
        return "{" + ", ".join(f"{json.dumps(k)} = {_toml_value(x)}" for k, x in v.items()) + "}"
    raise TypeError(type(v))


def dump_toml(cfg: dict) -> str:
    lines = []
    for k, v in cfg.items():
        if not isinstance(v, dict):
            lines.append(f"{k} = {_toml_value(v)}")
    for sec, body in cfg.items():
        if not isinstance(body, dict):
            continue
        lines.append(f"\n[{sec}]")
        for k, v in body.items():
            lines.append(f"{json.dumps(k)} = {_toml_value(v)}")
    return "\n".join(lines) + "\n"


def dump_yaml(cfg: dict) -> str:
    import yaml

    return yaml.safe_dump(cfg, sort_keys=False, default_flow_style=None)


def write_config(cfg: dict, d: Path, spelling: str = "yaml2", name: str = "ladim") -> Path:
    if spelling == "toml2":
        p = d / f"{name}.toml"
        p.write_text(dump_toml(cfg))
    else:
        p = d / f"{name}.yaml"
        p.write_text(dump_yaml(cfg))
    return p


# --------------------------------------------------------------------------
# whole world
# --------------------------------------------------------------------------


def write_world(sc, d: Path) -> None:
    """grid, forcing and release files of the scenario"""
    if sc.get("world", "roms") == "roms":
        write_grid_file(d / "grid.nc", sc)
        for k, (fname, frames) in enumerate(zip(forcing_file_names(sc), frame_partition(sc))):
            write_forcing_file(d / fname, sc, frames, file_index=k)
    write_release_file(d / "release.rls", sc)
