"""C13 - clock arithmetic: steps/times convert consistently; period spellings agree."""

from __future__ import annotations

import copy
import datetime

import numpy as np

from ladsim import driver, gen, readback, truth, world
from ladsim.oracles.common import Result, Violation, account_run, crash_violation
from ladsim.rng import stream

ID = "C13"
LEVEL = "exploration"
ANCHORS = ("ladim/timekeeper.py",)
RULE = ("three kinds of seeded cases: (clock) the real TimeKeeper constructed from start/stop/reference on a one-second "
        "lattice, dt dividing or not dividing the duration, both directions, dt spelled as int / timedelta64 / "
        "timedelta / [value, unit] / ISO string, then stepped through update() for every step (in a third of the cases "
        "after being positioned at step 0 the way Model does it for a warm start) and compared with an "
        "integer-second reference clock (time, step, Nsteps, nctime in s/m/h/d, step2time, time2step round trip incl. "
        "negative steps, step2nctime, step2isotime, cf_units); (spell) whole runs whose time.dt, output.output_period "
        "and release.release_frequency are spelled in every accepted way must give identical records; (malformed) "
        "malformed period spellings in the configuration must be refused at start-up. Non-trivial: clock cases with "
        ">= 2 steps, spell cases with >= 2 spellings compared, malformed cases always; distinct by the case parameters")
COMPONENTS = {"real": ["TimeKeeper", "normalize_period", "configure", "Model start-up", "Output time coordinate"],
              "stub": ["synthetic ocean files (spell, malformed)", "integer reference clock (oracle)"]}
ASSUMPTIONS = ["malformed = the catalogue in MALFORMED (strings that are not PTxHyMzS, lists that are not [int, unit])"]
TIERS = {"quick": dict(runs=3000, budget_s=40, shrink=60),
         "thorough": dict(runs=300000, budget_s=600, shrink=100)}
REQUIRED_PROBES = ["clock_reversed", "clock_forward", "dt_not_dividing", "clock_repositioned", "spell_run",
                   "malformed_refused"]
MALFORMED = ["PT", "PT5", "5S", "PT5X", "PTS", "P5S", "PT5S3", "five", "PT1M2H", [], [5], [5, "s", 7],
             [5, "furlongs"], {"seconds": 5}, [10, "M"], [1, "Y"]]
UNITS = {"s": 1, "m": 60, "h": 3600, "D": 86400}

RUN_PROFILE = gen.profile(nsteps=(2, 16), p_reversed=0.3, p_land=0.2, p_subgrid=0.1, rows=(1, 4), p_continuous=0.5,
                          p_ibm=0.2, cfl=(0.02, 0.3), N=(1, 2), p_numrec=0.3, p_dense=0.1, p_temp=0.1, p_pvars=0.2,
                          p_extra_time=0.0, p_lonlat_out=0.0, dts=(60, 120, 300, 600, 900, 1800, 3600, 7200))


def generate(seed: int, tier: str, idx: int) -> dict:
    s = stream(seed, "c13")
    kind = s.wpick([("clock", 90), ("spell", 5), ("malformed", 5)])
    if kind == "clock":
        dt = s.pick([1, 7, 60, 90, 600, 900, 3600, 5400, 86400, s.randint(1, 100000),
                     s.pick([61, 122, 1830, 3661, 3660, 3601, 7322, 36610, 43932])])    # PT1M1S, PT30M30S, PT1H1M1S, ...
        nst = s.randint(0, 40)
        extra = s.randint(1, dt - 1) if dt > 1 and s.chance(0.4) else 0
        rev = s.chance(0.5)
        start = int(s.randint(0, 2_000_000_000))
        ref = None
        if s.chance(0.6):
            ref = start + (s.randint(-10**8, 10**8) if s.chance(0.6) else s.randint(-3 * 10**9, 3 * 10**9))
        spell = s.pick(["int", "td64", "timedelta", "list_s", "iso"] + (["list_m"] if dt % 60 == 0 else [])
                       + (["list_h"] if dt % 3600 == 0 else []))
        return {"plan": {"kind": "clock", "start": start, "dt": dt, "nsteps": nst, "extra": extra, "reversed": rev,
                         "reference": ref, "dt_spelling": spell, "start_form": s.pick(["iso", "dt64", "datetime"]),
                         # the clock positioned from outside the way Model.__init__ does it for a warm start
                         # (step = 0; time = step2time(0)) after this many updates, then stepped on; -1: never
                         "reposition_after": s.randint(0, nst + 1) if s.chance(0.35) else -1}}
    sc = gen.gen_scenario(seed, RUN_PROFILE)
    sc.pop("spell", None)
    if kind == "spell":
        sc["plan"] = {"kind": "spell"}
    else:
        sc["plan"] = {"kind": "malformed", "where": s.pick(["dt", "period", "freq"]), "value": s.pick(MALFORMED)}
        if sc["plan"]["where"] == "freq" and not sc["release"].get("continuous"):
            sc["plan"]["where"] = "period"
    return sc


def features(sc) -> set[str]:
    pl = sc["plan"]
    f = {"kind_" + pl["kind"]}
    if pl["kind"] == "clock":
        if pl["reversed"]:
            f.add("reversed")
        if pl["extra"]:
            f.add("dt_not_dividing")
        if pl["reference"] is not None:
            f.add("reference")
        f.add("dt_" + pl["dt_spelling"])
        if pl.get("reposition_after", -1) >= 0:
            f.add("repositioned")
    else:
        f |= gen.features(sc)
        if pl["kind"] == "malformed":
            f.add("bad_" + pl["where"])
    return f


def base_reductions(sc):
    pl = sc["plan"]
    if pl["kind"] != "clock":
        from ladsim import shrink

        for name, c in shrink.reductions(sc):
            yield name, c
        return
    for key, val in (("reference", None), ("extra", 0), ("dt_spelling", "int"), ("start_form", "iso")):
        if pl[key] != val:
            c = copy.deepcopy(sc)
            c["plan"][key] = val
            yield f"{key}", c
    if pl.get("reposition_after", -1) >= 0:
        for m in sorted({-1, 0, pl["reposition_after"] // 2} - {pl["reposition_after"]}):
            c = copy.deepcopy(sc)
            c["plan"]["reposition_after"] = m
            yield f"reposition{m}", c
    if pl["nsteps"] > 1:
        for m in sorted({pl["nsteps"] // 2, pl["nsteps"] - 1}):
            c = copy.deepcopy(sc)
            c["plan"]["nsteps"] = m
            yield f"nsteps{m}", c
    if pl["dt"] != 60:
        c = copy.deepcopy(sc)
        c["plan"]["dt"] = 60
        c["plan"]["extra"] = min(pl["extra"], 59)
        yield "dt60", c
    if pl["start"] != 946684800:
        c = copy.deepcopy(sc)
        c["plan"]["start"] = 946684800
        if pl["reference"] is not None:
            c["plan"]["reference"] = 946684800 + (pl["reference"] - pl["start"])
        yield "start2000", c


def _spell(dt: int, how: str):
    if how == "int":
        return dt
    if how == "td64":
        return np.timedelta64(dt, "s")
    if how == "timedelta":
        return datetime.timedelta(seconds=dt)
    if how in ("list_s", "list_m", "list_h"):
        return world.spell_period(dt, how)
    return world.spell_period(dt, "iso")


E0 = np.datetime64("1970-01-01T00:00:00", "s")


def execute_clock(sc) -> Result:
    from ladim.timekeeper import TimeKeeper, normalize_period

    res = Result()
    pl = sc["plan"]
    res.history_key = repr(sorted(pl.items()))
    sg = -1 if pl["reversed"] else 1
    dt, nst = pl["dt"], pl["nsteps"]
    start = pl["start"]
    stop = start + sg * (nst * dt + pl["extra"])
    ref = pl["reference"] if pl["reference"] is not None else min(start, stop)
    t = lambda sec: E0 + np.timedelta64(int(sec), "s")  # noqa: E731
    form = pl["start_form"]
    if form == "iso":
        a_start, a_stop = str(t(start)), str(t(stop))
    elif form == "dt64":
        a_start, a_stop = t(start), t(stop)
    else:
        a_start, a_stop = t(start).astype(datetime.datetime), t(stop).astype(datetime.datetime)
    kw = dict(start=a_start, stop=a_stop, dt=_spell(dt, pl["dt_spelling"]), time_reversal=pl["reversed"])
    if pl["reference"] is not None:
        kw["reference"] = str(t(ref))
    if nst == 0 and pl["extra"] == 0:
        # start == stop: any behaviour is acceptable (degenerate window); not judged
        return res
    try:
        tk = TimeKeeper(**kw)
    except (Exception, SystemExit) as e:  # noqa: BLE001
        res.add(Violation("C13.crash:" + type(e).__name__ + "@timekeeper", None, "constructor", repr(e)[:200],
                          "a valid clock"))
        return res
    res.executions += 1
    res.nontrivial = nst >= 2
    res.probes["clock_reversed" if pl["reversed"] else "clock_forward"] += 1
    if pl["extra"]:
        res.probes["dt_not_dividing"] += 1

    def bad(tag, n, what, got, want):
        res.add(Violation(tag, n, what, got, want))

    if normalize_period(_spell(dt, pl["dt_spelling"])) != np.timedelta64(dt, "s"):
        bad("C13.spelling", None, f"normalize_period({_spell(dt, pl['dt_spelling'])!r})",
            normalize_period(_spell(dt, pl["dt_spelling"])), f"{dt} seconds")
    if int(tk.Nsteps) != nst:
        bad("C13.nsteps", None, "Nsteps", tk.Nsteps, nst)
    want_units = f"seconds since {t(ref)}"
    got_units = str(tk.cf_units("s"))
    ok_units = False
    if got_units.startswith("seconds since "):
        try:
            ok_units = np.datetime64(got_units[len("seconds since "):].strip().replace(" ", "T"), "s") == t(ref)
        except ValueError:
            ok_units = False
    if not ok_units:
        bad("C13.nctime", None, "cf_units", got_units, want_units)
    try:
        repos = pl.get("reposition_after", -1)
        if repos is not None and repos >= 0:
            for _ in range(repos):
                tk.update()
            # Model.__init__, warm start: the same two assignments, then the time loop calls update()
            tk.step = 0
            tk.time = tk.step2time(tk.step)
            res.probes["clock_repositioned"] += 1
            first = 1
            if np.datetime64(tk.time, "s") != t(start):
                bad("C13.clock", 0, "time after positioning at step 0", str(tk.time), str(t(start)))
        else:
            first = 0
        for n in range(first, nst + 2):
            tk.update()
            want = t(start + sg * n * dt)
            res.feed(int(tk.step), str(tk.time))
            res.model_steps += 1
            if int(tk.step) != n:
                bad("C13.clock", n, "step after update()", tk.step, n)
            if np.datetime64(tk.time, "s") != want:
                bad("C13.clock", n, "time after update()", str(tk.time), str(want))
            for unit, mult in UNITS.items():
                got = tk.nctime(unit)
                w = (start + sg * n * dt - ref) / mult
                if abs(got - w) > 1e-9 * max(1.0, abs(w)):
                    bad("C13.nctime", n, f"nctime({unit})", got, w)
            if len(res.violations) > 6:
                break
        for n in list(range(-5, nst + 3)):
            want = t(start + sg * n * dt)
            got = tk.step2time(n)
            if np.datetime64(got, "s") != want:
                bad("C13.clock", n, f"step2time({n})", str(got), str(want))
            if tk.time2step(want) != n:
                bad("C13.roundtrip", n, f"time2step(time of step {n})", tk.time2step(want), n)
            if tk.time2step(tk.step2time(n)) != n:
                bad("C13.roundtrip", n, f"time2step(step2time({n}))", tk.time2step(tk.step2time(n)), n)
            if tk.step2isotime(n) != str(want):
                bad("C13.clock", n, f"step2isotime({n})", tk.step2isotime(n), str(want))
            for unit, mult in (("s", 1), ("m", 60), ("h", 3600)):
                w = (start + sg * n * dt - ref) / mult
                got = tk.step2nctime(n, unit)
                if abs(got - w) > 1e-9 * max(1.0, abs(w)):
                    bad("C13.nctime", n, f"step2nctime({n},{unit})", got, w)
            if len(res.violations) > 10:
                break
    except (Exception, SystemExit) as e:  # noqa: BLE001
        res.add(Violation("C13.crash:" + type(e).__name__ + "@timekeeper", None, "clock API", repr(e)[:200], "a value"))
    return res


def _records(d):
    R = readback.Records(readback.list_output_files(d))
    return R


def execute_spell(sc) -> Result:
    res = Result()
    dt = truth.dt_s(sc)
    per = dt * sc["output"]["period"]
    freq = dt * sc["release"]["freq_steps"] if sc["release"].get("continuous") else None
    variants = [{}]
    for how in world.period_spellings(dt):
        variants.append({"dt": how})
    for how in world.period_spellings(per):
        variants.append({"period": how})
    if freq:
        for how in world.period_spellings(freq):
            variants.append({"freq": how})
    base = None
    res.history_key = "spell|" + repr((dt, per, freq, sc["time"]["nsteps"], truth.sgn(sc)))
    compared = 0
    for var in variants:
        s2 = copy.deepcopy(sc)
        s2["spell"] = var
        d = world.new_dir()
        try:
            run = driver.run_scenario(s2, d, snap=False)
            account_run(res, run, s2)
            if run.error is not None:
                v, foreign = crash_violation(ID, run, ANCHORS)
                if base is not None and base != "error":
                    res.add(Violation("C13.spelling", None, f"spelling {var}", run.error.brief(), "same run as the plain spelling"))
                if base is None:
                    base = "error"
                    res.aborted_foreign += 1
                continue
            R = _records(d)
            cur = [(str(r["time"]), {k: np.asarray(v).tolist() for k, v in r["data"].items()}) for r in R.recs]
            for r in R.recs:
                res.feed(*[r["data"][k] for k in sorted(r["data"])])
            if base is None:
                base = cur
            elif base != "error":
                compared += 1
                if _norm(cur) != _norm(base):
                    res.add(Violation("C13.spelling", None, f"spelling {var}", "records differ from the plain spelling", "identical records"))
        finally:
            world.rm_dir(d)
    res.nontrivial = compared >= 2
    if compared:
        res.probes["spell_run"] += 1
    return res


def _norm(recs):
    return repr(recs).replace("nan", "NaN")


def execute_malformed(sc) -> Result:
    res = Result()
    pl = sc["plan"]
    res.history_key = "malformed|" + repr((pl["where"], pl["value"]))
    res.nontrivial = True

    def edit(cfg):
        if pl["where"] == "dt":
            cfg["time"]["dt"] = pl["value"]
        elif pl["where"] == "period":
            cfg["output"]["output_period"] = pl["value"]
        else:
            cfg["release"]["release_frequency"] = pl["value"]
        return cfg

    d = world.new_dir()
    try:
        run = driver.run_scenario(sc, d, cfg_edit=edit, snap=False, spelling="yaml2")
        account_run(res, run, sc)
        res.faults["bad_period:" + pl["where"]] += 1
        started = run.error is None or run.error.phase not in ("configure", "init", "main")
        if started:
            res.add(Violation("C13.malformed_accepted", None, f"{pl['where']} = {pl['value']!r}",
                              "start-up succeeded" + (f", then {run.error.brief()}" if run.error else ""), "refused at start-up"))
        else:
            res.probes["malformed_refused"] += 1
            R = _records(d)
            if R.recs:
                res.add(Violation("C13.malformed_accepted", None, f"{pl['where']} = {pl['value']!r}",
                                  f"{len(R.recs)} records written", "no record"))
    finally:
        world.rm_dir(d)
    return res


def execute(sc) -> Result:
    kind = sc["plan"]["kind"]
    if kind == "clock":
        return execute_clock(sc)
    if kind == "spell":
        return execute_spell(sc)
    return execute_malformed(sc)
