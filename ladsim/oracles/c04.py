"""C04 - release accounting: each scheduled row yields exactly mult particles on time."""

from __future__ import annotations

import numpy as np

from ladsim import driver, gen, refmodel, truth, world
from ladsim.oracles.common import Result, Violation, abstract_history, account_run, crash_violation
from ladsim.rng import stream

ID = "C04"
LEVEL = "exploration"
ANCHORS = ("ladim/release.py", "ladim/state.py")
RULE = ("seeded release tables (several rows per time, mult 0..4, rows before start / at start / at stop / after stop, "
        "extra int/float/time columns declared as state variables, header in file or names in the configuration, "
        "discrete and continuous with the first file time at or before start, lon/lat positions, forward and "
        "reversed) run through the real model; the state immediately before and after every release.update is "
        "compared with a reference schedule: exactly mult new particles per due row, at the row's position with the "
        "row's values, in file-row order, nothing else. Non-trivial: >= 2 release events or a row outside the "
        "window or mult != 1; distinct by (direction, mode, frequency, release steps, mults, columns)")
COMPONENTS = {"real": ["ParticleReleaser (read_release_file, window filters, discretize, __next__)", "State.append",
                       "TimeKeeper.time2step", "Grid.ll2xy", "Model loop", "pandas reader"],
              "stub": ["synthetic ocean files", "reference release schedule (oracle)"]}
ASSUMPTIONS = ["numbers read from the release file are compared to 4e-16 relative (the text reader may round the 17th digit)",
               "release times lie on the model time grid and are sorted in simulation order (premise)",
               "a row exactly one step after the last simulated step but before a stop that is off the step grid is not judged"]
TIERS = {"quick": dict(runs=1500, budget_s=50, shrink=150),
         "thorough": dict(runs=150000, budget_s=900, shrink=250)}
REQUIRED_PROBES = ["missing_value_in_column", "column_with_configured_default", "both_position_pairs_in_file", "continuous", "reversed", "row_at_stop", "row_before_start", "mult_zero", "names_in_config",
                   "lonlat_release", "time_column", "continuous_first_before_start"]

PROFILE = gen.profile(
    nsteps=(1, 24), p_reversed=0.3, p_land=0.3, p_subgrid=0.3, rows=(1, 12),
    mult=((1, 4), (2, 2), (0, 2), (3, 1), (4, 1)), p_late_rows=0.8, p_rows_outside=0.5, p_continuous=0.4,
    p_header=0.6, p_extra_float=0.5, p_extra_time=0.3, p_ibm=0.3, p_kills=0.5, p_lifetime=0.2,
    cfl=(0.02, 0.3), p_numrec=0.2, p_dense=0.1, p_temp=0.2, N=(1, 3), p_lonlat_out=0.2,
    spacing=(1, 8), p_multifile=0.3, period=(1, 5), p_stop_extra=0.2,
)


def generate(seed: int, tier: str, idx: int) -> dict:
    s = stream(seed, "c04")
    sc = gen.gen_scenario(seed, PROFILE)
    rel = sc["release"]
    n = sc["time"]["nsteps"]
    if not rel.get("continuous") and s.chance(0.3):
        # a row exactly at the stop time and one just before start
        base = dict(rel["rows"][0])
        tag = max(r["tag"] for r in rel["rows"]) + 1
        for st in (n, -1):
            if not (st == n and sc["time"].get("stop_extra")):
                row = dict(base, step=st, tag=tag, mult=1)
                rel["rows"].append(row)
                tag += 1
        rel["rows"].sort(key=lambda r: r["step"])
    if s.chance(0.3):
        for c in rel["extra"]:
            if c["type"] in ("int", "float") and s.chance(0.7):
                c["state_default"] = 77 if c["type"] == "int" else 77.5
    if any(c["name"] == "fvar" for c in rel["extra"]) and s.chance(0.3):
        # missing values ("nan") in a float column; the row after a missing one has a value and the other way round
        for k, r in enumerate(rel["rows"]):
            if s.chance(0.4) or k == 1:
                r["fvar"] = None
    if "lon" in sc["output"].get("ivars", {}) and s.chance(0.6):
        # the release file gives X, Y and, for information, a rounded longitude / latitude as well (these need lon and
        # lat to be state variables, which the lon/lat output brings along): the grid position is the one that counts
        from ladsim.oracles.c16 import xy_to_lonlat

        rel["both_positions"] = True
        rel.pop("col_order", None)
        for r in rel["rows"]:
            lon, lat = xy_to_lonlat(sc, np.array([r["X"]]), np.array([r["Y"]]))
            r["lon"], r["lat"] = round(float(lon[0]), 1), round(float(lat[0]), 1)
    elif s.chance(0.25):
        # positions given as longitude / latitude
        from ladsim.oracles.c16 import xy_to_lonlat

        rel["use_lonlat"] = True
        for r in rel["rows"]:
            lon, lat = xy_to_lonlat(sc, np.array([r["X"]]), np.array([r["Y"]]))
            r["lon"], r["lat"] = float(lon[0]), float(lat[0])
    return sc


def same_number(a, b) -> bool:
    """equal as numbers read from a text file: the reader may round the 17th digit differently"""
    a, b = float(a), float(b)
    return a == b or abs(a - b) <= 4e-16 * max(abs(a), abs(b))


def execute(sc) -> Result:
    res = Result()
    run = driver.run_scenario(sc)
    try:
        account_run(res, run, sc)
        rel = sc["release"]
        sched = refmodel.release_schedule(sc)
        res.history_key = "|".join(map(str, (
            truth.sgn(sc), bool(rel.get("continuous")), rel.get("freq_steps"),
            [(r["step"], r["mult"]) for r in rel["rows"]], [c["name"] for c in rel.get("extra", [])],
            rel.get("header", True), bool(rel.get("use_lonlat")), sc["time"]["nsteps"]))) + "|" + abstract_history(run, sc)
        v, foreign = crash_violation(ID, run, ANCHORS)
        if v is not None:
            res.add(v)
        if foreign:
            res.aborted_foreign += 1
        rec = run.rec
        pre = rec.snap_by_step("release.pre")
        post = rec.snap_by_step("release.post")
        n = sc["time"]["nsteps"]
        steps_rows = [int(r["step"]) for r in rel["rows"]]
        # probes
        if rel.get("continuous"):
            res.probes["continuous"] += 1
            if min(steps_rows) < 0:
                res.probes["continuous_first_before_start"] += 1
        if truth.sgn(sc) < 0:
            res.probes["reversed"] += 1
        if any(s == n for s in steps_rows):
            res.probes["row_at_stop"] += 1
        if any(s < 0 for s in steps_rows):
            res.probes["row_before_start"] += 1
        if any(r["mult"] == 0 for r in rel["rows"]):
            res.probes["mult_zero"] += 1
        if not rel.get("header", True):
            res.probes["names_in_config"] += 1
        if rel.get("use_lonlat"):
            res.probes["lonlat_release"] += 1
        if any(c["type"] == "time" for c in rel.get("extra", [])):
            res.probes["time_column"] += 1
        if rel.get("both_positions"):
            res.probes["both_position_pairs_in_file"] += 1
        if any("state_default" in c for c in rel.get("extra", [])):
            res.probes["column_with_configured_default"] += 1
        if any(r.get("fvar", 0) is None for r in rel["rows"]):
            res.probes["missing_value_in_column"] += 1
            if rel.get("continuous") and len({r["step"] for r in rel["rows"]}) == len(rel["rows"]) > 1:
                res.probes["missing_value_continuous_one_row_per_time"] += 1
        events = 0
        npid_expected = 0
        grid = None
        for st in sorted(post):
            if st not in pre or st < 0:
                continue
            a, b = pre[st], post[st]
            due = sched.get(st, [])
            exp = [r for r in due for _ in range(int(r["mult"]))]
            if st == n:     # a step the model never runs
                continue
            new_n = b["n"] - a["n"]
            res.feed(b["vars"]["pid"], b["vars"]["X"], b["vars"]["Y"])
            # nothing that was there before may change
            for k in a["vars"]:
                if k in a["ivars"] and not np.array_equal(a["vars"][k], b["vars"][k][: a["n"]], equal_nan=a["vars"][k].dtype.kind == "f"):
                    res.add(Violation("C04.old_changed", st, k, b["vars"][k][: a["n"]], a["vars"][k]))
            if new_n != len(exp):
                res.add(Violation("C04.count", st, "new particles", new_n,
                                  f"{len(exp)} (rows {[r['tag'] for r in due]} mult {[r['mult'] for r in due]})"))
                continue
            if not exp:
                continue
            events += 1
            newv = {k: v[a["n"]:] for k, v in b["vars"].items() if k in b["ivars"]}
            pids = newv["pid"]
            if not np.array_equal(pids, np.arange(a["npid"], a["npid"] + new_n)):
                res.add(Violation("C04.pid", st, "pids of new particles", pids,
                                  f"{a['npid']}..{a['npid'] + new_n - 1}"))
            tags = [int(r["tag"]) for r in exp]
            got_tags = [int(t) for t in newv["tag"]]
            if got_tags != tags:
                tagk = "C04.order" if sorted(got_tags) == sorted(tags) else "C04.rows"
                res.add(Violation(tagk, st, "tags of new particles", got_tags, tags))
                continue
            for k, r in enumerate(exp):
                if rel.get("use_lonlat"):
                    from ladsim.oracles.c16 import xy_to_lonlat

                    lon, lat = xy_to_lonlat(sc, newv["X"][k:k + 1], newv["Y"][k:k + 1])
                    resid = (lon[0] - r["lon"]) ** 2 + (lat[0] - r["lat"]) ** 2
                    if not resid < 1.0e-7:
                        res.add(Violation("C04.position", st, f"tag {r['tag']} (lon/lat)",
                                          f"X,Y=({newv['X'][k]:.6f},{newv['Y'][k]:.6f}) residual {resid:.3g} deg^2",
                                          f"({r['X']},{r['Y']}) residual < 1e-7"))
                elif not same_number(newv["X"][k], r["X"]) or not same_number(newv["Y"][k], r["Y"]):
                    res.add(Violation("C04.position", st, f"tag {r['tag']}",
                                      (newv["X"][k], newv["Y"][k]), (r["X"], r["Y"])))
                if not same_number(newv["Z"][k], r["Z"]):
                    res.add(Violation("C04.position", st, f"tag {r['tag']} Z", newv["Z"][k], r["Z"]))
                for c in rel.get("extra", []):
                    name = c["name"]
                    if name == "tag":
                        continue
                    if c.get("particle"):
                        got = b["vars"][name][pids[k]] if pids[k] < len(b["vars"][name]) else None
                    else:
                        got = newv[name][k]
                    if c["type"] == "time":
                        want = np.datetime64(truth.t_start(sc) + int(r[name]) * truth.dt_s(sc), "s")
                        same = got is not None and np.datetime64(got, "s") == want
                    elif c["type"] == "int":
                        want = int(r[name])
                        same = got is not None and int(got) == want
                    elif r[name] is None:
                        want = float("nan")
                        same = got is not None and np.isnan(got)
                    else:
                        want = float(r[name])
                        same = got is not None and same_number(got, want)
                    if not same:
                        res.add(Violation("C04.columns", st, f"{name} of tag {r['tag']}", got, want))
            if not np.all(newv["alive"]) or not np.all(newv["active"]):
                res.add(Violation("C04.columns", st, "alive/active of new particles",
                                  (newv["alive"], newv["active"]), "all True"))
        # rows that were due at a simulated step but never saw a release.update with them
        done_steps = {st for st in post}
        for st, due in sched.items():
            if st < n and st not in done_steps and run.error is None and any(r["mult"] for r in due):
                res.add(Violation("C04.count", st, "release step never executed", "no release.update", "release"))
        res.nontrivial = events >= 1 and (events >= 2 or any(s < 0 or s >= n for s in steps_rows)
                                          or any(r["mult"] != 1 for r in rel["rows"]))
    finally:
        world.rm_dir(run.dir)
    return res
