"""C08 - restart transparency: a warm start continues as if the run never stopped."""

from __future__ import annotations

import copy
import shutil
from pathlib import Path

import numpy as np

from ladsim import driver, gen, readback, truth, world
from ladsim.oracles.common import Result, Violation, abstract_history, account_run, crash_violation
from ladsim.rng import stream

ID = "C08"
LEVEL = "fault_enumeration"
ANCHORS = ("ladim/warm_start.py", "ladim/configure.py", "ladim/model.py", "ladim/release.py", "ladim/out_netcdf.py")
RULE = ("fault = crash of the running model (no finish(), open handles dropped) followed by a warm start from a "
        "completed output file; for each seeded uninterrupted run U (continuous or discrete release, deaths by IBM and "
        "by leaving the grid, age / accumulated forcing-derived weight / position-dependent dose / scalar forcing in the state, particle "
        "variables, EF/RK2/RK4, split output, durations on and off the period grid) EVERY completed file k of U is a "
        "restart point (up to 6 per U): the model is really run again and killed at a seeded step between the close of "
        "file k and the close of file k+1, only the files whose last record had been written are copied to a fresh "
        "directory (for a share of the restart points the run dies later, so that newer completed files exist and are "
        "overwritten), and a new run warm-starts from file k with the same or an earlier stop (on or off the period "
        "grid); chains of up to three crash/restart generations. Every record of a restarted run before its own stop "
        "time must equal U's record of that time (pids exactly, values to 1e-5 cells / 1e-9 relative, particle "
        "variables, file names continuing U's numbering). Non-trivial: a restart after which >= 1 record with "
        "particles was compared; distinct by (restart file, crash step, stop choice, generation, U's abstract history)")
COMPONENTS = {"real": ["configure_v2 warm start", "warm_start()", "Model.__init__ catch-up", "ParticleReleaser warm path",
                       "Output file numbering", "all modules of the stepping model", "netCDF4 on tmpfs"],
              "stub": ["process death (emulated in-process: updates stop, handles dropped, only completed files copied)",
                       "synthetic ocean files", "scripted IBM"]}
ASSUMPTIONS = ["a file counts as completed when its numrec-th record has been written (doc/source/output.rst)",
               "diffusion off; the activity flag is not part of the restart state and is not scripted",
               "a trailing record exactly at the restarted run's stop time is not judged"]
TIERS = {"quick": dict(runs=320, budget_s=60, shrink=60, reps_per_tag=1),
         "thorough": dict(runs=15000, budget_s=1200, shrink=120, reps_per_tag=2)}
REQUIRED_PROBES = ["restart", "restart_from_older_file", "newest_pid_dead_within_file", "chain2", "chain3", "stop_off_grid", "pending_release_at_restart", "death_before_restart",
                   "crash_in_partial_file", "particle_variables", "rk"]

PROFILE = gen.profile(
    nsteps=(6, 40), p_reversed=0.0, p_land=0.4, p_subgrid=0.3, p_bathy_var=0.5, N=(1, 4), p_levels=0.6,
    cfl=(0.05, 0.5), p_time_dependent=0.8, p_temp=0.8, rows=(2, 8), p_late_rows=0.8, p_rows_outside=0.2,
    p_continuous=0.6, p_ibm=1.0, p_kills=0.7, p_lifetime=0.5, p_deact=0.0, p_weight=0.7, p_dose=0.7,
    schemes=(("EF", 2), ("RK2", 1), ("RK4", 1)), p_numrec=1.0, numrec=(1, 4), p_dense=0.0, p_f4=0.0, p_pvars=0.6,
    p_release_time_pvar=0.6, p_extra_float=0.4, p_extra_time=0.0, p_lonlat_out=0.0, period=(1, 5), p_stop_extra=0.2,
    p_reference=0.5, spacing=(1, 8), p_multifile=0.6,
)


def generate(seed: int, tier: str, idx: int) -> dict:
    s = stream(seed, "c08")
    sc = gen.gen_scenario(seed, PROFILE)
    gen.make_restartable(sc)
    if sc.get("ibm", {}).get("age") and stream(seed, "c08.packed").chance(0.35):
        # a state variable written packed (integer type plus scale_factor, as examples/killer/dense.yaml does):
        # the age counts whole steps, halves are exactly representable, so the restart loses nothing
        sc["output"]["ivars"]["age"] = "i4"
        sc["output"]["packed"] = {"age": 0.5}
    if s.chance(0.4):
        # output base names ending in digits or an underscore (the restart continues "<base>_NNN.nc")
        sc["output"]["filename"] = s.pick(["run2.nc", "exp30.nc", "a_b.nc", "res_.nc", "t1000.nc"])
    # the youngest particles die soon after their release: before the next record (the counter is then
    # lost with them, the listed finding) or after one record but before the file is complete
    if s.chance(0.6) and not sc["release"].get("continuous"):
        rows = sorted(sc["release"]["rows"], key=lambda r: r["step"])
        per = sc["output"]["period"]
        for r in rows[-2:]:
            if 0 <= r["step"] < sc["time"]["nsteps"] - 1 and s.chance(0.7):
                k = min(sc["time"]["nsteps"] - 1, r["step"] + s.randint(0, 2 * per))
                sc["ibm"].setdefault("kills", {}).setdefault(str(k), [])
                if r["tag"] not in sc["ibm"]["kills"][str(k)]:
                    sc["ibm"]["kills"][str(k)].append(r["tag"])
    plan = {"points": [], "chain": []}
    for _ in range(6):
        plan["points"].append({"crash_frac": round(s.random(), 3), "late": s.chance(0.3),
                               "stop": s.wpick([("same", 3), ("earlier_on", 1), ("earlier_off", 1)]),
                               "stop_frac": round(s.random(), 3)})
    if s.chance(0.5):
        plan["chain"] = [{"crash_frac": round(s.random(), 3), "skip": s.randint(0, 1)} for _ in range(s.randint(1, 2))]
    sc["plan"] = plan
    return sc


def nrecords(sc) -> int:
    return -(-sc["time"]["nsteps"] // sc["output"]["period"])


def step_of(sc, t) -> int:
    return int((t - truth.t_start(sc)) / np.timedelta64(1, "s")) // truth.dt_s(sc) * truth.sgn(sc)


def file_no(name: str) -> int:
    return int(name.rsplit("_", 1)[1].split(".")[0])


def stem_of(sc) -> str:
    return sc["output"].get("filename", "out.nc")[:-3]


def copy_world(src: Path, dst: Path) -> None:
    for p in src.iterdir():
        if p.name.startswith(("grid", "forcing")) or p.suffix == ".rls":
            shutil.copy(p, dst / p.name)


def compare_to_U(res: Result, sc, U: readback.Records, Urec_by_time: dict, R2: readback.Records, restart_stop,
                 first_no: int, gen_no: int, site: str) -> int:
    """compare the records a restarted run wrote with U's; returns the number of non-empty records compared"""
    ncmp = 0
    ufile_by_no = {file_no(f.name): f for f in U.files}
    for r in R2.recs:
        t = r["time"]
        if t == restart_stop:
            continue                                   # trailing record at the restarted run's own stop: not judged
        u = Urec_by_time.get(t)
        st = step_of(sc, t)
        if u is None:
            if t < truth.t_stop(sc) and st % sc["output"]["period"] == 0 and st < sc["time"]["nsteps"]:
                res.add(Violation("C08.members", st, f"gen {gen_no} record at {t}", "present", "no such record in U", site=site))
            continue
        up, rp = np.asarray(u["data"]["pid"]).astype(int), np.asarray(r["data"]["pid"]).astype(int)
        if len(up) != len(rp):
            res.add(Violation("C08.members", st, f"gen {gen_no} record at {t}: number of particles", len(rp), len(up), site=site))
            continue
        if not np.array_equal(up, rp):
            res.add(Violation("C08.pid", st, f"gen {gen_no} record at {t}: pids", rp, up, site=site))
            continue
        if len(up):
            ncmp += 1
        for name in sorted(u["data"]):
            if name == "pid" or name not in r["data"]:
                continue
            a, b = np.asarray(u["data"][name], dtype=float), np.asarray(r["data"][name], dtype=float)
            if name in ("X", "Y"):
                bad = np.abs(a - b) > 1e-5
            elif name == "Z":
                bad = np.abs(a - b) > 1e-6 * np.maximum(1.0, np.abs(a))
            elif name == "dose":       # integral of positions: inherits their tolerance
                bad = np.abs(a - b) > 1e-4 * np.maximum(1.0, np.abs(a))
            else:
                bad = np.abs(a - b) > 1e-9 * np.maximum(1.0, np.abs(a))
            bad |= np.isnan(a) != np.isnan(b)
            if bad.any():
                q = int(np.nonzero(bad)[0][0])
                res.add(Violation("C08.values", st, f"gen {gen_no} record at {t}: {name} of pid {up[q]}", b[q], a[q], site=site))
                break
        if r["fname"] != u["fname"] or r["index"] != u["index"]:
            res.add(Violation("C08.file_names", st, f"gen {gen_no} record at {t}", f"{r['fname']}[{r['index']}]",
                              f"{u['fname']}[{u['index']}]", site=site))
    # particle variables of every file the restarted run completed in the same way as U
    for f in R2.files:
        uf = ufile_by_no.get(file_no(f.name))
        if uf is None or f.nrec != uf.nrec or f.nrec == 0 or f.times[-1] == restart_stop:
            continue
        for name in uf.particle_vars:
            a = np.asarray(uf.vars[name], dtype=float)
            b = np.asarray(f.vars.get(name, []), dtype=float)
            # time-typed particle variables count from each file's own reference time: compare decoded times
            ua, ub = uf.var_attrs[name].get("units", ""), f.var_attrs.get(name, {}).get("units", "")
            if "since" in ua and "since" in ub:
                ra = np.datetime64(ua.split("since")[1].strip().replace(" ", "T"), "s")
                rb = np.datetime64(ub.split("since")[1].strip().replace(" ", "T"), "s")
                b = b + float((rb - ra) / np.timedelta64(1, "s"))
            if len(a) != len(b) or not np.allclose(a, b, rtol=0, atol=1e-9, equal_nan=True):
                res.add(Violation("C08.particle_var", None, f"gen {gen_no} {f.name} {name}", b[:8], a[:8], site=site))
    return ncmp


def execute(sc) -> Result:
    res = Result()
    sc = copy.deepcopy(sc)
    plan = sc.pop("plan")
    dirs = []
    try:
        dU = world.new_dir()
        dirs.append(dU)
        runU = driver.run_scenario(sc, dU)
        account_run(res, runU, sc)
        res.history_key = abstract_history(runU, sc)
        if runU.error is not None:
            v, foreign = crash_violation(ID, runU, ANCHORS)
            if v is not None:
                res.add(v)
            elif foreign:
                res.aborted_foreign += 1
            return res
        U = readback.Records(readback.list_output_files(dU, stem_of(sc)))
        for r in U.recs:
            res.feed(r["time"], *[r["data"][k] for k in sorted(r["data"])])
        Urec_by_time = {r["time"]: r for r in U.recs}
        writesU = runU.rec.record_snaps(sc["output"]["period"])
        p, numrec, nsteps = sc["output"]["period"], sc["output"]["numrec"], sc["time"]["nsteps"]
        nrec = nrecords(sc)
        nfiles_complete_before_end = (nrec - 1) // numrec if nrec % numrec else nrec // numrec - 1
        # restart points: every completed file that is followed by at least one more step
        points = []
        for k in range(0, max(0, nfiles_complete_before_end) + 1):
            last_rec = (k + 1) * numrec - 1
            if last_rec >= nrec:
                break
            last_step = last_rec * p
            if last_step + 1 >= nsteps:
                break
            points.append((k, last_step))
        keys = [res.history_key]
        for (k, last_step), pp in zip(points[:6], plan["points"]):
            nxt_close = min(((k + 2) * numrec - 1) * p, nsteps - 1)
            # the model is killed after `s` calls of update(): steps 0..s-1 done
            s = last_step + 1 + int(pp["crash_frac"] * (nxt_close - last_step))
            if pp.get("late"):
                # the run dies much later: newer completed files exist too, the restart still uses file k
                # and overwrites them
                s = last_step + 1 + int(pp["crash_frac"] * (nsteps - last_step - 1))
                res.probes["restart_from_older_file"] += 1
            s = min(max(s, last_step + 1), nsteps)
            gen_dirs = self_restart(res, sc, U, Urec_by_time, writesU, dU, k, s, pp, plan["chain"], dirs, keys)
        res.history_key = "|".join(keys)
        if sc["tracker"].get("advection") in ("RK2", "RK4") and res.probes["restart"]:
            res.probes["rk"] += 1
        if sc["output"].get("pvars") and res.probes["restart"]:
            res.probes["particle_variables"] += 1
        if sc["output"].get("packed") and res.probes["restart"]:
            res.probes["packed_state_variable_in_restart_file"] += 1
    finally:
        for d in dirs:
            world.rm_dir(d)
    return res


def self_restart(res: Result, sc, U, Urec_by_time, writesU, dU, k: int, s: int, pp: dict, chain: list, dirs: list, keys: list):
    p, numrec, nsteps = sc["output"]["period"], sc["output"]["numrec"], sc["time"]["nsteps"]
    dt = truth.dt_s(sc)
    stem = stem_of(sc)
    # ---- generation 1: the original run, killed after s updates
    d1 = world.new_dir()
    dirs.append(d1)
    copy_world(dU, d1)
    run1 = driver.run_scenario(sc, d1, write=False, crash_after=s)
    account_run(res, run1, sc)
    res.faults["crash"] += 1
    nwrites = run1.rec.records_due(p)
    closed = nwrites // numrec                      # files whose last record has been written
    if nwrites % numrec:
        res.probes["crash_in_partial_file"] += 1
    if run1.error is not None or closed <= k:
        res.aborted_foreign += 1
        return
    # ---- only completed files survive
    d2 = world.new_dir()
    dirs.append(d2)
    copy_world(dU, d2)
    for n in range(closed):
        shutil.copy(d1 / f"{stem}_{n:03d}.nc", d2 / f"{stem}_{n:03d}.nc")
    world.rm_dir(d1)
    # sanity: the surviving restart file equals U's
    a, b = readback.OutFile(d2 / f"{stem}_{k:03d}.nc"), U.files[k]
    for name in b.vars:
        if name not in a.vars or not np.array_equal(a.vars[name], b.vars[name], equal_nan=a.vars[name].dtype.kind == "f"):
            res.add(Violation("C08.members", None, f"file {stem}_{k:03d}.nc of the killed run: {name}", "differs from U", "identical"))
    t_restart = b.times[-1]
    rstep = step_of(sc, t_restart)
    # ---- the new stop
    stopU = truth.t_stop(sc)
    remaining = nsteps - rstep
    if pp["stop"] == "same" or remaining < 3:
        stop, new_n = stopU, remaining
    else:
        new_n = max(2, int(pp["stop_frac"] * remaining))
        if pp["stop"] == "earlier_on":
            new_n = max(p, new_n // p * p)
            new_n = min(new_n, remaining)
            stop = t_restart + new_n * dt
        else:
            stop = t_restart + new_n * dt + max(1, dt // 3)
            if stop > stopU:
                stop, new_n = stopU, remaining
            else:
                res.probes["stop_off_grid"] += 1
    # situation features for the known-finding signature
    snap_at_restart = [w for w in writesU if w["step"] == rstep][0]
    pidmax_in_file = int(b.vars["pid"].max()) + 1 if len(b.vars["pid"]) else 0
    site = ""
    if snap_at_restart["npid"] > pidmax_in_file:
        site = "pid_counter_lost:newest pids absent from the restart file"
        res.probes["npid_gt_maxpid_in_file"] += 1
    if pidmax_in_file and snap_at_restart["npid"] == pidmax_in_file and \
            (pidmax_in_file - 1) not in set(np.asarray(b.record(b.nrec - 1)["pid"]).tolist()):
        res.probes["newest_pid_dead_within_file"] += 1      # recorded in the file, gone by its last record
    if (~snap_at_restart["vars"]["alive"]).any() or snap_at_restart["npid"] > snap_at_restart["n"]:
        res.probes["death_before_restart"] += 1
    from ladsim import refmodel

    sched = refmodel.release_schedule(sc)
    if any(st > rstep for st in sched) :
        res.probes["pending_release_at_restart"] += 1
    run2 = driver.run_scenario(sc, d2, write=False, warm_file=str(d2 / f"{stem}_{k:03d}.nc"),
                               out_name=f"{stem}_{k + 1:03d}.nc", stop=stop, cfg_name="restart")
    account_run(res, run2, sc)
    res.faults["warm_start"] += 1
    keys.append(f"k{k}s{s}{pp['stop']}")
    if run2.error is not None:
        v, foreign = crash_violation(ID, run2, ANCHORS, promises_completion=True)
        if v is not None:
            v.site = (site + " | " if site else "") + v.site
            res.add(v)
        return
    R2 = readback.Records([f for f in readback.list_output_files(d2, stem) if file_no(f.name) > k])
    expect_names = {f"{stem}_{n:03d}.nc" for n in range(0, 2000)}
    stray = sorted(p_.name for p_ in d2.glob("*.nc") if not p_.name.startswith(("grid", "forcing")) and p_.name not in expect_names)
    if stray:
        res.add(Violation("C08.file_names", None, f"gen 2 restart from {stem}_{k:03d}.nc", f"files {stray} written",
                          f"files named {stem}_NNN.nc continuing the numbering", site=site))
    for r in R2.recs:
        res.feed(r["time"], *[r["data"][kk] for kk in sorted(r["data"])])
    ncmp = compare_to_U(res, sc, U, Urec_by_time, R2, np.datetime64(stop, "s"), k + 1, 2, site)
    if ncmp:
        res.probes["restart"] += 1
        res.nontrivial = True
    # ---- chains: kill the restarted run too and restart again
    cur_dir, cur_first, cur_t, cur_stop_n = d2, k + 1, t_restart, new_n
    gen_no = 2
    for ch in chain:
        gen_no += 1
        # completed files of the generation that just ran to its end: all its files; choose one to restart from
        files = sorted(file_no(f.name) for f in readback.list_output_files(cur_dir, stem) if file_no(f.name) >= cur_first)
        full = []
        for n in files:
            f = readback.OutFile(cur_dir / f"{stem}_{n:03d}.nc")
            if f.nrec == numrec:
                full.append((n, f))
        if len(full) < 1:
            break
        n_from, f_from = full[min(ch["skip"], len(full) - 1)]
        t_from = f_from.times[-1]
        steps_left = step_of(sc, np.datetime64(truth.t_stop(sc), "s")) - step_of(sc, t_from)
        if steps_left < 2 or t_from in (None,):
            break
        # kill the generation after a seeded number of updates past the close of the chosen file
        done_at_close = step_of(sc, t_from) - step_of(sc, cur_t)      # updates until that record
        s2 = done_at_close + 1 + int(ch["crash_frac"] * max(0, p * numrec - 1))
        dk = world.new_dir()
        dirs.append(dk)
        copy_world(dU, dk)
        for n in range(cur_first):
            shutil.copy(cur_dir / f"{stem}_{n:03d}.nc", dk / f"{stem}_{n:03d}.nc")
        runk = driver.run_scenario(sc, dk, write=False, warm_file=str(dk / f"{stem}_{cur_first - 1:03d}.nc"),
                                   out_name=f"{stem}_{cur_first:03d}.nc", stop=truth.t_stop(sc), cfg_name="restart",
                                   crash_after=s2)
        account_run(res, runk, sc)
        res.faults["crash"] += 1
        nw = runk.rec.records_due(p)
        closed = nw // numrec
        if runk.error is not None or cur_first + closed <= n_from:
            break
        dn = world.new_dir()
        dirs.append(dn)
        copy_world(dU, dn)
        for n in range(cur_first + closed):
            shutil.copy(dk / f"{stem}_{n:03d}.nc", dn / f"{stem}_{n:03d}.nc")
        runn = driver.run_scenario(sc, dn, write=False, warm_file=str(dn / f"{stem}_{n_from:03d}.nc"),
                                   out_name=f"{stem}_{n_from + 1:03d}.nc", stop=truth.t_stop(sc), cfg_name="restart")
        account_run(res, runn, sc)
        res.faults["warm_start"] += 1
        keys.append(f"g{gen_no}from{n_from}s{s2}")
        if runn.error is not None:
            v, foreign = crash_violation(ID, runn, ANCHORS, promises_completion=True)
            if v is not None:
                res.add(v)
            break
        Rn = readback.Records([f for f in readback.list_output_files(dn, stem) if file_no(f.name) > n_from])
        for r in Rn.recs:
            res.feed(r["time"], *[r["data"][kk] for kk in sorted(r["data"])])
        site_n = ""
        ufile = [f for f in U.files if file_no(f.name) == n_from]
        if ufile:
            w = [x for x in writesU if x["step"] == step_of(sc, t_from)]
            pm = int(ufile[0].vars["pid"].max()) + 1 if len(ufile[0].vars["pid"]) else 0
            if w and w[0]["npid"] > pm:
                site_n = "pid_counter_lost:newest pids absent from the restart file"
        if site:
            site_n = site_n or site      # an earlier generation already lost the counter
        site = site_n                    # ... and every later generation inherits the loss
        nc2 = compare_to_U(res, sc, U, Urec_by_time, Rn, None, n_from + 1, gen_no, site_n)
        if nc2:
            res.probes[f"chain{gen_no - 1}"] += 1
        cur_dir, cur_first, cur_t = dn, n_from + 1, t_from
