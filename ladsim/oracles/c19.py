"""C19 - step protocol: release, forcing, output, move, IBM; once per step in that order."""

from __future__ import annotations

import copy
import os
import shutil
import sys
from pathlib import Path

import numpy as np

from ladsim import driver, gen, readback, refmodel, truth, world
from ladsim.oracles.common import Result, Violation, abstract_history, account_run, crash_violation
from ladsim.rng import stream

ID = "C19"
LEVEL = "exploration"
ANCHORS = ("ladim/model.py", "ladim/main.py")
RULE = ("whole-model runs with recording shims on all eight modules (cold start, and warm start from a completed "
        "file of a previous run), all run lengths and output periods, the IBM given by absolute path, by a path "
        "relative to the working directory with and without .py while an importable decoy of the same name exists, "
        "by two files of the same base name in different directories (IBM and forcing), or by dotted module name; every "
        "run's plug-in copy carries a token unique to the run, many runs share one worker process; a sampled half goes through ladim.main.main(). Oracle over the recorded call log "
        "and snapshots: per step exactly time, release, forcing, output, tracker, ibm once each (whether a record is due is "
        "C07's business); Nsteps steps; close "
        "once per module that has one; forcing evaluated on the state that already holds the step's new particles; "
        "the record written from that very state with forcing-derived variables valid at t; the IBM sees the moved "
        "particles; an IBM kill at step n appears in no record after n; the file plug-in ran, not the decoy. "
        "Non-trivial: >= 2 steps with a release after step 0 or an IBM kill; distinct by (start kind, plug-in "
        "spelling, main/loop, abstract history)")
COMPONENTS = {"real": ["Model.__init__/update/finish", "ladim.main.main (sampled)", "load_module", "all eight modules",
                       "warm_start"],
              "stub": ["recording shims (subclasses delegating to the real classes)", "scripted IBM", "decoy module"]}
ASSUMPTIONS = ["the shims override only methods the base classes have and delegate unchanged"]
TIERS = {"quick": dict(runs=900, budget_s=55, shrink=100),
         "thorough": dict(runs=50000, budget_s=900, shrink=200)}
REQUIRED_PROBES = ["cold", "warm", "via_main", "plugin_relative_path", "plugin_module_name", "plugin_same_basename_two_dirs", "plugin_dotted_stem", "grid_plugin_with_close", "plain_run_before_and_after", "ibm_section_with_module_only", "plugin_named_like_a_ladim_module", "ibm_derived_from_base_class", "ibm_kill_checked",
                   "late_release", "scalar_in_record"]

PROFILE = gen.profile(
    nsteps=(1, 24), p_reversed=0.2, rows=(1, 6), p_late_rows=0.8, p_continuous=0.35, p_ibm=1.0, p_kills=0.8,
    p_lifetime=0.3, p_deact=0.2, cfl=(0.1, 0.6), p_numrec=0.5, numrec=(1, 4), p_dense=0.1, p_pvars=0.3,
    p_temp=0.7, p_weight=0.5, N=(1, 3), period=(1, 6), p_extra_time=0.0, p_lonlat_out=0.0, p_stop_extra=0.1,
    schemes=(("EF", 2), ("RK2", 1), ("RK4", 1)),
)

DECOY_DIR = Path(world.SCRATCH_ROOT) / f"ladsim-decoy-{os.getpid()}"


def generate(seed: int, tier: str, idx: int) -> dict:
    s = stream(seed, "c19")
    sc = gen.gen_scenario(seed, PROFILE)
    sc["output"]["layout"] = sc["output"].get("layout", "sparse")
    plan = {"start": s.wpick([("cold", 3), ("warm", 2)]),
            "plugin": s.pick(["abs", "rel", "rel_py", "name", "twin", "dotted", "dotted_py", "collide", "collide_py"]),
            "main": s.chance(0.5)}
    if plan["start"] == "warm":
        sc["output"].pop("layout", None)        # warm start reads the sparse format
        sc["output"]["numrec"] = s.randint(1, 3)
        sc["time"]["nsteps"] = max(sc["time"]["nsteps"], sc["output"]["period"] * sc["output"]["numrec"] + 2)
        sc["frames"] = gen._frames(stream(seed, "c19f"), PROFILE, sc["time"]["nsteps"],
                                   bool(sc["time"].get("reversed")), "stop_extra" in sc["time"])
        n = len(sc["frames"]["offsets"])
        for c in ("u", "v"):
            if sc["flow"].get("amp_" + c):
                a = sc["flow"]["amp_" + c]
                sc["flow"]["amp_" + c] = [a[k % len(a)] for k in range(n)]
        plan["main"] = False
        gen.make_restartable(sc)
    plan["grid_close"] = s.chance(0.3)      # the user's grid plug-in has a close() of its own
    plan["ibm_no_options"] = s.chance(0.3)
    plan["ibm_derived"] = stream(seed, "c19.derived").chance(0.5)
    # the same plain set-up (no plug-in anywhere, no IBM section) run before and after the run with the plug-ins
    plan["isolation"] = plan["start"] == "cold" and s.chance(0.3)
    # the other plug-in points (grid, forcing, output, state, time, release, tracker) by path or by dotted module name
    plan["by_name"] = [m for m in ("grid", "forcing", "output", "state", "time", "release", "tracker") if s.chance(0.3)]
    sc["plan"] = plan
    return sc


def _decoy() -> None:
    DECOY_DIR.mkdir(parents=True, exist_ok=True)
    (DECOY_DIR / "myibm.py").write_text(
        "from ladsim import recorder\n"
        "class IBM:\n"
        "    def __init__(self, modules, **kw):\n"
        "        if recorder.REC is not None: recorder.REC.plugin_marks.append('decoy')\n"
        "    def update(self):\n        pass\n")
    if str(DECOY_DIR) not in sys.path:
        sys.path.append(str(DECOY_DIR))


def _install_plugin(d: Path, how: str, twin: bool = False, derived: bool = False):
    """returns the function that edits the configuration's ibm.module (and, for twin, forcing.module)

    Every run gets its own copy of the plug-in carrying a token unique to the run, so that a loader that
    hands back a module loaded earlier in the same process (another run's file of the same name) is seen."""
    token = d.name
    src = (world.PLUGIN_DIR / "script_ibm.py").read_text()
    marked = src.replace("        r = recorder.REC\n        if r is not None:\n            r.on_init(\"ibm\", self, modules)",
                         f"        r = recorder.REC\n        if r is not None:\n            r.plugin_marks.append('file:{token}')\n"
                         "            r.on_init(\"ibm\", self, modules)")
    assert marked != src
    if derived:
        # the user's class derives from LADiM's IBM base class, as the documentation suggests
        marked2 = marked.replace("\nclass IBM:\n", "\nfrom ladim.ibm import IBM as _LadimIBM\n\n\nclass IBM(_LadimIBM):\n")
        assert marked2 != marked
        marked = marked2
    if twin:
        # the IBM and the forcing come from two different files with the same base name
        (d / "a").mkdir(exist_ok=True)
        (d / "b").mkdir(exist_ok=True)
        (d / "a" / "plug.py").write_text(marked)
        written = [d / "a" / "plug.py"]
        shim = (world.PLUGIN_DIR / "shim.py").read_text()
        (d / "b" / "plug.py").write_text(shim + f"\n\n_orig_init = Forcing.__init__\n\n\ndef _init(self, modules, *a, **k):\n"
                                         f"    _orig_init(self, modules, *a, **k)\n    r = _rec()\n    if r is not None:\n"
                                         f"        r.plugin_marks.append('forcing:{token}')\n\n\nForcing.__init__ = _init\n")

        def edit_twin(cfg):
            cfg["ibm"]["module"] = str(d / "a" / "plug.py")
            cfg["forcing"]["module"] = str(d / "b" / "plug")
            return cfg

        edit_twin.files = written
        return edit_twin
    if how in ("dotted", "dotted_py"):
        # the plug-in file has a dot in its stem and an older version lies next to it
        (d / "plug").mkdir(exist_ok=True)
        (d / "plug" / "myibm.v2.py").write_text(marked)
        written = [d / "plug" / "myibm.v2.py"]
        (d / "plug" / "myibm.py").write_text(marked.replace(f"file:{token}", "sibling"))
        name = str(d / "plug" / ("myibm.v2.py" if how == "dotted_py" else "myibm.v2"))
    elif how in ("rel", "rel_py"):
        _decoy()
        (d / "myibm.py").write_text(marked)
        written = [d / "myibm.py"]
        name = "myibm.py" if how == "rel_py" else "myibm"
    elif how in ("collide", "collide_py"):
        # the user's file in the working directory is called like one of LADiM's own modules
        (d / "ibm.py").write_text(marked)
        written = [d / "ibm.py"]
        name = "ibm.py" if how == "collide_py" else "ibm"
    elif how == "abs":
        (d / "absibm.py").write_text(marked)
        written = [d / "absibm.py"]
        name = str(d / "absibm")
    else:
        written = []
        name = "ladsim.plugins.script_ibm"

    def edit(cfg):
        cfg["ibm"]["module"] = name
        return cfg

    edit.files = written
    return edit


def check_protocol(res: Result, sc, run, first_step: int, last_step: int, ref) -> None:
    rec = run.rec
    core = {("time", "update"), ("release", "update"), ("forcing", "update"), ("output", "update"),
            ("tracker", "update"), ("ibm", "update")}
    per_step: dict[int, list[str]] = {}
    closes = []
    for mod, meth, st in rec.calls:
        if meth == "close":
            closes.append(mod)
        elif (mod, meth) in core:
            per_step.setdefault(st, []).append(mod)
    p = sc["output"]["period"]
    # warm start: the catch-up step inside Model.__init__ runs release, forcing, tracker, ibm at step 0
    for st in range(first_step, last_step + 1):
        got = per_step.get(st, [])
        want = ["time", "release", "forcing", "output", "tracker", "ibm"]
        if st == 0 and first_step == 0 and sc["plan"]["start"] == "warm":
            want = ["release", "forcing", "tracker", "ibm"]
        elif st % p != 0 and got == ["time", "release", "forcing", "tracker", "ibm"]:
            want = got      # no record is due: whether the output module is consulted at all is left open
        if got != want:
            tag = "C19.multiplicity" if sorted(got) != sorted(want) else "C19.order"
            res.add(Violation(tag, st, "calls of the step", got, want))
    extra = sorted(set(per_step) - set(range(first_step, last_step + 1)) - {-1})
    if extra:
        res.add(Violation("C19.multiplicity", extra[0], "steps outside the run", extra, "none"))
    if run.finished:
        expect_close = ["forcing", "ibm", "output"] + (["grid"] if sc["plan"].get("grid_close") else [])
        for mod in expect_close:
            if closes.count(mod) != 1:
                res.add(Violation("C19.close", None, f"{mod}.close calls", closes.count(mod), 1))
    # --- state visibility
    rpost = rec.snap_by_step("release.post")
    fpost = rec.snap_by_step("forcing.post")
    wsnap = {s["step"]: s for s in rec.record_snaps(p)}
    tpost = rec.snap_by_step("tracker.post")
    ipre = rec.snap_by_step("ibm.pre")
    ipost = rec.snap_by_step("ibm.post")
    probes = {p_["step"]: p_ for p_ in rec.probes}
    for st in sorted(fpost):
        if st in rpost:
            a, b = rpost[st], fpost[st]
            if not np.array_equal(a["vars"]["pid"], b["vars"]["pid"]):
                res.add(Violation("C19.release_before_forcing", st, "particles seen by forcing.update",
                                  b["vars"]["pid"], a["vars"]["pid"]))
            if st in probes and "u" in probes[st]["vars"] and len(probes[st]["vars"]["u"]) != a["n"]:
                res.add(Violation("C19.release_before_forcing", st, "len(forcing.variables['u'])",
                                  len(probes[st]["vars"]["u"]), a["n"]))
        if st in wsnap:
            a, b = fpost[st], wsnap[st]
            for k in ("pid", "X", "Y", "Z", "temp", "weight", "age"):
                if k in a["vars"] and not np.array_equal(a["vars"][k], b["vars"][k], equal_nan=a["vars"][k].dtype.kind == "f"):
                    res.add(Violation("C19.record_state", st, f"{k} changed between forcing.update and the record",
                                      b["vars"][k], a["vars"][k]))
            if "temp" in b["vars"] and b["n"] and ref is not None:
                X, Y, Z = b["vars"]["X"], b["vars"]["Y"], b["vars"]["Z"]
                ok = ref.in_valid(X, Y) & ~ref.near_tie(X, Y)
                try:
                    lo, hi = ref.scalar_candidates("temp", X, Y, Z, st + (0 if sc["plan"]["start"] == "cold" else sc["plan"].get("offset", 0)))
                    got = b["vars"]["temp"].astype(float)
                    bad = ok & (np.abs(got - lo) > 1e-6) & (np.abs(got - hi) > 1e-6)
                    res.probes["scalar_in_record"] += 1
                    if bad.any():
                        q = int(np.nonzero(bad)[0][0])
                        res.add(Violation("C19.record_state", st, f"temp of particle {q} in the record state",
                                          got[q], f"{lo[q]} or {hi[q]} (forcing at the record's own time and position)"))
                except ValueError:
                    res.premise_left += 1
    for st in sorted(ipre):
        if st in tpost:
            a, b = tpost[st], ipre[st]
            for k in ("pid", "X", "Y", "Z", "alive"):
                if not np.array_equal(a["vars"][k], b["vars"][k]):
                    res.add(Violation("C19.ibm_view", st, f"{k} seen by the IBM differs from the state after the move",
                                      b["vars"][k], a["vars"][k]))
    return ipre, ipost


def check_kills(res: Result, sc, ipre, ipost, R, step_of_time) -> None:
    killed: dict[int, int] = {}
    for st in sorted(ipost):
        if st not in ipre:
            continue
        a, b = ipre[st]["vars"], ipost[st]["vars"]
        if len(a["pid"]) != len(b["pid"]):
            continue
        for pid in a["pid"][a["alive"] & ~b["alive"]].tolist():
            killed.setdefault(int(pid), st)
    if not killed:
        return
    res.probes["ibm_kill_checked"] += 1
    for k, r in enumerate(R.recs):
        st = step_of_time(r["time"])
        if r["layout"] == "sparse":
            members = set(np.asarray(r["data"]["pid"]).astype(int).tolist())
        else:
            members = set(readback.dense_members(r).tolist())
        late = [p for p, ks in killed.items() if p in members and st > ks]
        if late:
            res.add(Violation("C19.kill_visibility", st, f"record {k}", f"pids {late} killed by the IBM at steps "
                              f"{[killed[p] for p in late]} still present", "absent from every later record"))


def execute(sc) -> Result:
    res = Result()
    pl = sc["plan"]
    d = world.new_dir()
    ref = refmodel.RefWorld(sc)
    try:
        edit0 = _install_plugin(d, pl["plugin"], twin=pl["plugin"] == "twin", derived=bool(pl.get("ibm_derived")))
        if pl.get("ibm_derived") and pl["plugin"] != "name":
            res.probes["ibm_derived_from_base_class"] += 1

        if pl.get("grid_close"):
            shim_src = (world.PLUGIN_DIR / "shim.py").read_text()
            (d / "gridplug.py").write_text(shim_src + "\n\ndef _grid_close(self):\n    r = _rec()\n    if r is not None:\n"
                                           "        r.call('grid', 'close')\n\n\nGrid.close = _grid_close\n")

        def edit(cfg):
            cfg = edit0(cfg) or cfg
            if pl.get("ibm_no_options") and edit0.files and set(cfg["ibm"]) == {"module", "script"}:
                # the user's IBM takes no options: its section holds the module key only (examples/streak/age_ibm.yaml);
                # the script is written into the plug-in file itself
                script = cfg["ibm"].pop("script")
                for f in edit0.files:
                    src = f.read_text()
                    assert 'script="{}"' in src
                    f.write_text(src.replace('script="{}"', "script=" + repr(script)))
                res.probes["ibm_section_with_module_only"] += 1
            if pl.get("grid_close"):
                cfg["grid"]["module"] = str(d / "gridplug.py")
            for sec in pl.get("by_name", []):
                if sec == "forcing" and pl["plugin"] == "twin":
                    continue
                if sec == "grid" and pl.get("grid_close"):
                    continue
                if cfg.get(sec, {}).get("module", "").endswith("shim.py"):
                    cfg[sec]["module"] = "ladsim.plugins.shim"
            return cfg
        def plain_run():
            """the set-up with every module left to its default and without an IBM section, in a directory of its own"""
            def drop(cfg):
                cfg.pop("ibm", None)
                return cfg
            r = driver.run_scenario(sc, None, shims=False, cfg_edit=drop, rng_seed=7, record=True)
            res.executions += 1
            try:
                R_ = readback.Records(readback.list_output_files(r.dir))
                foreign_calls = [f"{c[0]}.{c[1]}" for c in r.rec.calls][:6] + list(r.rec.plugin_marks)[:3]
                return r.error, [(x["fname"], x["time"], x["data"]) for x in R_.recs], R_.errors, foreign_calls
            finally:
                world.rm_dir(r.dir)

        before = plain_run() if pl.get("isolation") else None
        if pl["start"] == "cold":
            run = driver.run_scenario(sc, d, cfg_edit=edit, use_main=pl["main"], probe_fracs=(0.0,))
            account_run(res, run, sc)
            first, last = 0, sc["time"]["nsteps"] - 1
            offset = 0
        else:
            # first a plain run, then a warm start from its first completed file
            run0 = driver.run_scenario(sc, d)
            res.executions += 1
            files = readback.list_output_files(d)
            if run0.error is not None or len(files) < 2:
                res.aborted_foreign += 1
                return res
            warm = readback.OutFile(files[0])
            t_warm = warm.times[-1]
            offset = int(truth.sgn(sc) * (t_warm - truth.t_start(sc)) / np.timedelta64(1, "s")) // truth.dt_s(sc)
            pl["offset"] = offset
            run = driver.run_scenario(sc, d, write=False, warm_file=str(files[0]), out_name="warm_001.nc",
                                      cfg_edit=edit, probe_fracs=(0.0,), cfg_name="warm")
            account_run(res, run, sc)
            first, last = 0, sc["time"]["nsteps"] - offset
        res.history_key = "|".join(map(str, (pl["start"], pl["plugin"], pl["main"]))) + "|" + abstract_history(run, sc)
        v, foreign = crash_violation(ID, run, ANCHORS, promises_completion=False)
        if v is not None:
            res.add(v)
        if run.error is not None:
            if foreign:
                res.aborted_foreign += 1
            return res
        res.probes[pl["start"]] += 1
        if pl["main"]:
            res.probes["via_main"] += 1
        if pl["plugin"] in ("rel", "rel_py", "collide", "collide_py"):
            res.probes["plugin_relative_path"] += 1
        if pl["plugin"].startswith("collide"):
            res.probes["plugin_named_like_a_ladim_module"] += 1
        if pl["plugin"] == "name" or pl.get("by_name"):
            res.probes["plugin_module_name"] += 1
        if pl["plugin"] == "twin":
            res.probes["plugin_same_basename_two_dirs"] += 1
        if pl["plugin"].startswith("dotted"):
            res.probes["plugin_dotted_stem"] += 1
        if pl.get("grid_close"):
            res.probes["grid_plugin_with_close"] += 1
        marks = run.rec.plugin_marks
        want = [f"file:{d.name}"] if pl["plugin"] != "twin" else [f"forcing:{d.name}", f"file:{d.name}"]
        if pl["plugin"] != "name" and marks != want:
            res.add(Violation("C19.plugin_precedence", None, f"ibm.module spelled {pl['plugin']}", marks, want))
        ipre, ipost = check_protocol(res, sc, run, first, last, ref)
        if pl["start"] == "warm" and not sc["tracker"].get("diffusion"):
            # the catch-up step and every later step of the warm-started run leave the state the uninterrupted
            # run had at the same model time (living particles: pids exactly, positions to 1e-5 cells)
            base = run0.rec.snap_by_step("ibm.post")
            for st in sorted(ipost):
                b = base.get(st + offset)
                if b is None:
                    continue
                a = ipost[st]
                la, lb = a["vars"]["alive"].astype(bool), b["vars"]["alive"].astype(bool)
                pa, pb = a["vars"]["pid"][la], b["vars"]["pid"][lb]
                if len(pa) != len(pb) or (a["npid"] == b["npid"] and not np.array_equal(pa, pb)):
                    if a["npid"] == b["npid"]:
                        res.add(Violation("C19.warm_catchup", st, "living particles after the step", pa, f"{pb} (uninterrupted run)"))
                    break
                if not np.array_equal(pa, pb):
                    break       # identifiers differ after a restart that lost the counter: C08's listed finding
                for k in ("X", "Y", "Z"):
                    x, y = a["vars"][k][la].astype(float), b["vars"][k][lb].astype(float)
                    bad = np.abs(x - y) > 1e-5 * np.maximum(1.0, np.abs(y))
                    if bad.any():
                        q = int(np.nonzero(bad)[0][0])
                        res.add(Violation("C19.warm_catchup", st, f"{k} of pid {pa[q]} after the step", x[q],
                                          f"{y[q]} (uninterrupted run)"))
                        break
                else:
                    continue
                break
        if before is not None:
            # a run is configured by its own configuration alone: what ran earlier in the same process (plug-ins given
            # by path or name, an IBM) leaves no trace in a later run that does not ask for it
            after = plain_run()
            res.probes["plain_run_before_and_after"] += 1
            if after[3]:
                res.add(Violation("C19.isolation", None, "plain run (no plug-ins, no IBM) after the run with plug-ins",
                                  f"plug-in code of the earlier run was called: {after[3]}", "only LADiM's own modules run"))
            if after[0] is not None:
                # the set-up is valid and has just been run with the plug-ins: stripped of them it must run as well
                res.add(Violation("C19.isolation", None, "plain run (no plug-ins, no IBM) after the run with plug-ins",
                                  after[0].brief(), "runs to the end" + ("" if before[0] is None else
                                                                         " (it also failed before: " + before[0].brief() + ")")))
            elif before[0] is None:
                from ladsim.oracles.c07 import compare_records

                diff = None
                if len(before[1]) != len(after[1]):
                    diff = f"{len(after[1])} records instead of {len(before[1])}"
                else:
                    for (fa, ta, da), (fb, tb, db) in zip(before[1], after[1]):
                        diff = compare_records({"time": ta, "data": da}, {"time": tb, "data": db})
                        if diff is None and fa != fb:
                            diff = f"file {fb} instead of {fa}"
                        if diff:
                            diff = f"record at {ta}: {diff}"
                            break
                if diff:
                    res.add(Violation("C19.isolation", None, "plain run (no plug-ins, no IBM) repeated after the run with plug-ins",
                                      diff, "the same output as before that run"))
        stem = "out" if pl["start"] == "cold" else "warm"
        R = readback.Records(readback.list_output_files(d, stem))
        dt = truth.dt_s(sc)

        def step_of_time(t):
            tt = truth.t_start(sc) + truth.sgn(sc) * offset * dt
            return int(truth.sgn(sc) * (t - tt) / np.timedelta64(1, "s")) // dt

        check_kills(res, sc, ipre, ipost, R, step_of_time)
        rp, rq = run.rec.snap_by_step("release.pre"), run.rec.snap_by_step("release.post")
        if any(st > 0 and rq[st]["n"] > rp[st]["n"] for st in rq if st in rp):
            res.probes["late_release"] += 1
        res.nontrivial = (last - first) >= 1 and (res.probes["late_release"] > 0 or res.probes["ibm_kill_checked"] > 0)
    finally:
        world.rm_dir(d)
    return res
