"""C15 - depth stays within the water column."""

from __future__ import annotations

import numpy as np

from ladsim import driver, gen, refmodel, truth, world
from ladsim.oracles.common import Result, Violation, abstract_history, account_run, crash_violation
from ladsim.rng import stream

ID = "C15"
LEVEL = "exploration"
ANCHORS = ("ladim/tracker.py",)
RULE = ("seeded bathymetries (flat, sloping, bumpy; 2 m .. 2000 m), start depths in [0, h] incl. exactly 0 and h, "
        "vertical diffusion with 10 sigma of the step below the smallest depth and/or vertical advection with "
        "|w| dt <= 0.3 h_min (the property's premise |displacement| < h), all horizontal schemes, seeded RNG seam; "
        "after every Tracker.update 0 <= Z <= h(cell occupied when the step began) for every particle alive before "
        "the step; with both vertical processes off Z is bit-identical before and after. Non-trivial: a surface or "
        "bottom reflection was provoked (vertical processes on) or >= 2 steps with particles (off); distinct by "
        "(bathymetry, processes, scheme, abstract history)")
COMPONENTS = {"real": ["Tracker.update vertical part (diffuse_vert, w advection, reflection)", "ROMS Grid.depth",
                       "ROMS Forcing (w as extra forcing)", "Model loop"],
              "stub": ["synthetic ocean files", "seeded numpy Generator", "scripted IBM"]}
ASSUMPTIONS = ["a particle that starts a step deeper than the depth of the cell it occupies (it was carried horizontally into "
               "shallower water; LADiM does not couple depth to horizontal motion) is outside 'start depths in [0, h]' and not judged",
               "a step whose vertical displacement exceeds the local depth is outside the premise and not judged "
               "(the generator keeps 10 sigma + |w| dt below the smallest depth)"]
TIERS = {"quick": dict(runs=1000, budget_s=50, shrink=150),
         "thorough": dict(runs=100000, budget_s=900, shrink=250)}
REQUIRED_PROBES = ["vertdiff", "vertical_advection", "both_off", "surface_reflect", "bottom_reflect", "variable_bathymetry"]

PROFILE = gen.profile(
    nsteps=(2, 30), p_reversed=0.15, p_land=0.3, p_subgrid=0.3, p_bathy_var=0.8, N=(1, 5),
    cfl=(0.05, 0.6), rows=(4, 20), p_late_rows=0.4, p_continuous=0.2, p_ibm=0.4, p_kills=0.5, p_deact=0.3,
    p_vertdiff=0.6, p_w=0.5, p_diffusion=0.2, p_temp=0.2, p_numrec=0.2, p_dense=0.1, p_pvars=0.1, p_extra_time=0.0,
    p_lonlat_out=0.0, period=(1, 5),
)


def generate(seed: int, tier: str, idx: int) -> dict:
    return gen.gen_scenario(seed, PROFILE)


def execute(sc) -> Result:
    res = Result()
    ref = refmodel.RefWorld(sc)
    tr = sc["tracker"]
    vd, va = bool(tr.get("vertdiff")), bool(tr.get("vertical_advection"))
    run = driver.run_scenario(sc, rng_seed=7)
    try:
        account_run(res, run, sc)
        res.history_key = "|".join(map(str, (sc["grid"]["h"]["kind"], vd, va, tr.get("advection")))) + "|" + abstract_history(run, sc)
        v, foreign = crash_violation(ID, run, ANCHORS)
        if v is not None:
            res.add(v)
        if foreign:
            res.aborted_foreign += 1
        pre = run.rec.snap_by_step("tracker.pre")
        post = run.rec.snap_by_step("tracker.post")
        steps = 0
        dt = truth.dt_s(sc)
        sigma = (2 * tr.get("vertdiff", 0.0) * dt) ** 0.5
        wmax = abs(sc["flow"].get("w", {}).get("w0", 0.0)) * 1.25 * dt if va else 0.0
        for n in sorted(pre):
            if n not in post or post[n]["n"] != pre[n]["n"] or pre[n]["n"] == 0:
                continue
            a, b = pre[n]["vars"], post[n]["vars"]
            Z0, Z1 = a["Z"].astype(float), b["Z"].astype(float)
            alive0 = a["alive"].astype(bool)
            res.feed(Z1)
            steps += 1
            if not vd and not va:
                if not np.array_equal(Z0, Z1):
                    p = int(np.nonzero(Z0 != Z1)[0][0])
                    res.add(Violation("C15.changed_when_off", n, f"pid {a['pid'][p]}", Z1[p], Z0[p]))
                continue
            h = ref.depth(a["X"].astype(float), a["Y"].astype(float))
            # premise: the step's vertical displacement is smaller than the local depth
            # ... and the particle starts the step inside the column of the cell it occupies (a particle
            # carried horizontally into a shallower cell is below that cell's bottom: outside the quantifier)
            premise = alive0 & (10 * sigma + wmax < h) & ~ref.near_tie(a["X"].astype(float), a["Y"].astype(float))
            premise &= (Z0 >= 0) & (Z0 <= h)
            res.premise_left += int((alive0 & ~premise).sum())
            tol = 1e-9 * np.maximum(1.0, h)
            bad = premise & ((Z1 < -tol) | ~np.isfinite(Z1))
            if bad.any():
                p = int(np.nonzero(bad)[0][0])
                res.add(Violation("C15.above_surface", n, f"pid {a['pid'][p]} from Z={Z0[p]:.6g} h={h[p]:.6g}", Z1[p], ">= 0"))
            bad = premise & (Z1 > h + tol)
            if bad.any():
                p = int(np.nonzero(bad)[0][0])
                res.add(Violation("C15.below_bottom", n, f"pid {a['pid'][p]} from Z={Z0[p]:.6g} h={h[p]:.6g}", Z1[p], f"<= {h[p]:.6g}"))
            # reflections provoked?  (moved away from a boundary it was heading into)
            if va:
                w0 = sc["flow"]["w"]["w0"]
                if w0 < 0 and (premise & (Z0 < abs(w0) * dt * 0.9)).any():
                    res.probes["surface_reflect"] += 1
                if w0 > 0 and (premise & (Z0 > h - abs(w0) * dt * 0.9)).any():
                    res.probes["bottom_reflect"] += 1
            if vd:
                if (premise & (Z0 < sigma)).any():
                    res.probes["surface_reflect"] += 1
                if (premise & (Z0 > h - sigma)).any():
                    res.probes["bottom_reflect"] += 1
        if vd:
            res.probes["vertdiff"] += 1
        if va:
            res.probes["vertical_advection"] += 1
        if not vd and not va:
            res.probes["both_off"] += 1
        if sc["grid"]["h"]["kind"] != "flat":
            res.probes["variable_bathymetry"] += 1
        res.nontrivial = steps >= 2 and ((not vd and not va) or res.probes["surface_reflect"] + res.probes["bottom_reflect"] > 0)
    finally:
        world.rm_dir(run.dir)
    return res
