"""C16 helpers (the oracle itself follows below in a later round)."""

from __future__ import annotations

import numpy as np

from ladsim import truth


def xy_to_lonlat(sc, X, Y):
    """bilinear interpolation of the grid's own lon/lat (full grid, ground truth) at X, Y"""
    lon, lat = truth.lonlat(sc)
    X = np.asarray(X, dtype=float)
    Y = np.asarray(Y, dtype=float)
    i0 = np.floor(X).astype(int)
    j0 = np.floor(Y).astype(int)
    jm, im = lon.shape
    i0 = np.clip(i0, 0, im - 2)
    j0 = np.clip(j0, 0, jm - 2)
    p, q = X - i0, Y - j0

    def bil(F):
        return ((1 - p) * (1 - q) * F[j0, i0] + p * (1 - q) * F[j0, i0 + 1]
                + (1 - p) * q * F[j0 + 1, i0] + p * q * F[j0 + 1, i0 + 1])

    return bil(lon), bil(lat)


# ----------------------------------------------------------------------------
# the oracle
# ----------------------------------------------------------------------------

import copy  # noqa: E402

from ladsim import driver, gen, readback, refmodel, world  # noqa: E402
from ladsim.oracles.common import Result, Violation, abstract_history, account_run, crash_violation  # noqa: E402
from ladsim.rng import stream  # noqa: E402

ID = "C16"
LEVEL = "exploration"
ANCHORS = ("ladim/sample.py",)
RULE = ("(run) whole-model runs on conformal grids (rotated linear and polar-stereographic patches of 0.8 / 4 / 20 km "
        "resolution), full grid and subgrids, release positions given as longitude/latitude computed by the generator "
        "from known grid positions, lon/lat among the output variables; checked: every released particle starts where "
        "the interpolated lon/lat equal the given ones (residual < 1e-7 deg^2, the documented solver tolerance), "
        "lon/lat of every record equal the bilinear interpolation of the grid's coordinates at X, Y of the same record, "
        "and Grid.xy2ll / ll2xy called on the live grid object at seeded positions of the valid region round-trip; "
        "(utility) the clauses about the 2-D sampling utility are not reachable by any run, they are exercised by "
        "direct seeded calls of ladim.sample.sample2D (no simulation involved): exact on bilinear fields, within the "
        "corner range otherwise, masked nodes ignored, substitute value outside incl. 0.0. Non-trivial: >= 1 lon/lat "
        "release and >= 1 record judged (run) / always (utility); distinct by (grid kind, resolution, subgrid, case)")
COMPONENTS = {"real": ["Grid.xy2ll / ll2xy", "bilin_inv", "sample2D", "ParticleReleaser.clean_position", "Output lon/lat",
                       "Model loop"],
              "stub": ["synthetic ocean files with analytic lon/lat", "direct calls of sample2D (utility cases)"]}
ASSUMPTIONS = ["solver tolerance = residual (dlon^2 + dlat^2) < 1e-7 deg^2 as documented in bilin_inv",
               "'ignores masked nodes' is checked as: result within the range of the unmasked corners carrying weight, "
               "all four masked -> undef_value"]
TIERS = {"quick": dict(runs=600, budget_s=45, shrink=100),
         "thorough": dict(runs=50000, budget_s=900, shrink=200)}
REQUIRED_PROBES = ["run_stereo", "run_linear", "run_subgrid", "roundtrip", "output_lonlat", "utility_mask", "utility_mask_and_outside", "release_on_a_lonlat_lattice",
                   "utility_outside_zero"]

PROFILE = gen.profile(
    nsteps=(1, 12), p_reversed=0.1, p_land=0.3, p_subgrid=0.5, grid_i=(9, 18), grid_j=(9, 16), rows=(2, 10),
    p_late_rows=0.5, p_continuous=0.2, p_ibm=0.2, cfl=(0.05, 0.6), N=(1, 3), p_temp=0.1, p_numrec=0.2, p_dense=0.25,
    p_pvars=0.1, p_extra_time=0.0, p_lonlat_out=1.0, lonlat_kinds=(("linear", 1), ("stereo", 2)), period=(1, 3),
    p_f4=0.0,
)


def generate(seed: int, tier: str, idx: int) -> dict:
    s = stream(seed, "c16")
    if s.chance(0.25):
        return {"plan": {"kind": "utility", "seed": s.randint(0, 2**31)}}
    wide = stream(seed, "c16.wide").chance(0.04)
    if wide:
        # a grid many hundreds of cells across (NorKyst800 is 2602 x 902), releases far from its middle
        sc = gen.gen_scenario(seed, dict(PROFILE, grid_i=(760, 900), grid_j=(24, 30), p_subgrid=0.0, p_land=0.0, N=(1, 1),
                                         nsteps=(2, 4), p_multifile=0.0, p_big_grid=0.0, rows=(3, 5), p_continuous=0.0))
        if sc["grid"]["lonlat"]["kind"] == "stereo":
            sc["grid"]["lonlat"]["dxs"] = 0.8
        xlo, xhi, ylo, yhi = truth.valid_region(sc)
        rows_ = sc["release"]["rows"]
        rows_[0]["X"] = round(xlo + s.uniform(3, 40), 3)
        rows_[-1]["X"] = round(xhi - s.uniform(3, 40), 3)
        for r in (rows_[0], rows_[-1]):
            r["Y"] = round(s.uniform(ylo + 2, yhi - 2), 3)
            r["Z"] = 0.0
    else:
        sc = gen.gen_scenario(seed, PROFILE)
    sc["release"]["use_lonlat"] = True if wide else s.chance(0.8)
    if s.chance(0.4):
        # one row exactly in the middle of the loaded array (where an iterative solver would start), the others elsewhere
        i0, i1, j0, j1 = truth.subgrid(sc)
        xc, yc = i0 + 0.5 * (i1 - i0), j0 + 0.5 * (j1 - j0)
        m = truth.mask_rho(sc)
        if m[int(round(yc)), int(round(xc))] and m[int(np.floor(yc)), int(np.floor(xc))] and m[int(np.ceil(yc)), int(np.ceil(xc))]:
            r0 = sc["release"]["rows"][s.randint(0, len(sc["release"]["rows"]) - 1)]
            r0["X"], r0["Y"] = float(xc), float(yc)
            sc["plan_centre"] = True
    for r in sc["release"]["rows"]:
        lon, lat = xy_to_lonlat(sc, np.array([r["X"]]), np.array([r["Y"]]))
        r["lon"], r["lat"] = float(lon[0]), float(lat[0])
    lattice = False
    rows = sc["release"]["rows"]
    if sc["release"]["use_lonlat"] and len(rows) >= 2 and s.chance(0.4):
        # positions on a longitude x latitude lattice: different positions share a longitude or a latitude
        # (on a rotated or polar-stereographic grid X and Y each depend on both)
        a, b = rows[0], rows[1]
        xlo, xhi, ylo, yhi = truth.valid_region(sc)
        m = truth.mask_rho(sc)
        extra = []
        for lon, lat, src in ((a["lon"], b["lat"], a), (b["lon"], a["lat"], b)):
            xy = _invert(sc, lon, lat, 0.5 * (a["X"] + b["X"]), 0.5 * (a["Y"] + b["Y"]))
            if xy is None:
                continue
            x, y = xy
            if xlo + 0.05 < x < xhi - 0.05 and ylo + 0.05 < y < yhi - 0.05 and m[int(round(y)), int(round(x))] \
                    and abs(x - round(x) + 0.0) != 0.5 and abs(y - round(y)) != 0.5:
                extra.append(dict(src, X=float(x), Y=float(y), lon=float(lon), lat=float(lat)))
        if extra and (a["lon"] != b["lon"] and a["lat"] != b["lat"]):
            tag = max(r["tag"] for r in rows) + 1
            for k, r in enumerate(extra):
                r["tag"] = tag + k
                r["step"] = a["step"]
                r["Z"] = 0.0
            k0 = rows.index(b) + 1
            sc["release"]["rows"] = rows[:k0] + extra + rows[k0:]
            sc["release"]["rows"].sort(key=lambda r: r["step"])
            lattice = True
    sc["plan"] = {"kind": "run", "probe_seed": s.randint(0, 2**31), "centre_row": bool(sc.pop("plan_centre", False)),
                  "lattice": lattice}
    return sc


def _invert(sc, lon: float, lat: float, x0: float, y0: float):
    """grid position with the given lon/lat by Newton iteration on the generator's own lon/lat formulas"""
    x, y = float(x0), float(y0)
    for _ in range(30):
        f = xy_to_lonlat(sc, np.array([x, x + 1e-4, x]), np.array([y, y, y + 1e-4]))
        r0, r1 = f[0][0] - lon, f[1][0] - lat
        if abs(r0) + abs(r1) < 1e-12:
            return x, y
        a11, a12 = (f[0][1] - f[0][0]) / 1e-4, (f[0][2] - f[0][0]) / 1e-4
        a21, a22 = (f[1][1] - f[1][0]) / 1e-4, (f[1][2] - f[1][0]) / 1e-4
        det = a11 * a22 - a12 * a21
        if not np.isfinite(det) or abs(det) < 1e-30:
            return None
        x -= (a22 * r0 - a12 * r1) / det
        y -= (-a21 * r0 + a11 * r1) / det
        jm, im = truth.dims(sc)
        if not (0 <= x <= im - 1 and 0 <= y <= jm - 1):
            return None
    return None


def features(sc) -> set[str]:
    if sc["plan"]["kind"] == "utility":
        return {"kind_utility"}
    f = gen.features(sc) | {"kind_run"}
    f.add("lonlat_" + sc["grid"]["lonlat"]["kind"])
    return f


def base_reductions(sc):
    if sc["plan"]["kind"] == "utility":
        return
    from ladsim import shrink

    yield from shrink.reductions(sc)


def execute_run(sc) -> Result:
    res = Result()
    ref = refmodel.RefWorld(sc)
    store: dict = {}
    xlo, xhi, ylo, yhi = truth.valid_region(sc)

    def monitor(label, snap, rec):
        if label != "forcing.post" or "rt" in store:
            return
        grid = rec.modules["grid"]
        s = stream(sc["plan"]["probe_seed"], "probe")
        X = np.array([s.uniform(xlo, xhi) for _ in range(24)])
        Y = np.array([s.uniform(ylo, yhi) for _ in range(24)])
        # ... and exact rho points, among them the middle of the loaded array
        i0, i1, j0, j1 = truth.subgrid(sc)
        px = [i0 + 0.5 * (i1 - i0)] + [float(s.randint(int(np.ceil(xlo)), int(np.floor(xhi)))) for _ in range(3)]
        py = [j0 + 0.5 * (j1 - j0)] + [float(s.randint(int(np.ceil(ylo)), int(np.floor(yhi)))) for _ in range(3)]
        k = s.randint(0, 24)
        X = np.concatenate([X[:k], px, X[k:]])
        Y = np.concatenate([Y[:k], py, Y[k:]])
        lon, lat = grid.xy2ll(X.copy(), Y.copy())
        X2, Y2 = grid.ll2xy(np.array(lon, dtype=float), np.array(lat, dtype=float))
        store["rt"] = (X, Y, np.asarray(lon, float), np.asarray(lat, float), np.asarray(X2, float), np.asarray(Y2, float))

    d = world.new_dir()
    try:
        run = driver.run_scenario(sc, d, monitors=[monitor])
        account_run(res, run, sc)
        ll = sc["grid"]["lonlat"]
        res.history_key = "|".join(map(str, (ll["kind"], ll.get("dxs"), sc["grid"].get("subgrid"),
                                             sc["grid"]["imax0"], sc["grid"]["jmax0"]))) + "|" + abstract_history(run, sc)
        v, foreign = crash_violation(ID, run, ANCHORS + ("ladim/ROMS.py",))
        if v is not None:
            res.add(v)
        if foreign:
            res.aborted_foreign += 1
        judged = 0
        # ---- round trip on the live grid
        if "rt" in store:
            X, Y, lon, lat, X2, Y2 = store["rt"]
            res.feed(lon, lat, X2, Y2)
            tl, tt = xy_to_lonlat(sc, X, Y)
            bad = (np.abs(lon - tl) > 1e-9) | (np.abs(lat - tt) > 1e-9)
            if bad.any():
                q = int(np.nonzero(bad)[0][0])
                res.add(Violation("C16.output_lonlat", None, f"xy2ll({X[q]:.4f},{Y[q]:.4f})", (lon[q], lat[q]), (tl[q], tt[q])))
            l2, t2 = xy_to_lonlat(sc, X2, Y2)
            resid = (l2 - lon) ** 2 + (t2 - lat) ** 2
            bad = ~(resid < 1e-7) | ~ref.in_valid(X2, Y2, -0.6)
            if bad.any():
                q = int(np.nonzero(bad)[0][0])
                res.add(Violation("C16.roundtrip", None, f"ll2xy(xy2ll({X[q]:.4f},{Y[q]:.4f}))",
                                  f"({X2[q]:.6f},{Y2[q]:.6f}) residual {resid[q]:.3g} deg^2", "residual < 1e-7 deg^2"))
            res.probes["roundtrip"] += 1
            if sc["grid"]["imax0"] > 700:
                res.probes["grid_more_than_700_cells_wide"] += 1
            if sc["plan"].get("lattice"):
                res.probes["release_on_a_lonlat_lattice"] += 1
            if sc["plan"].get("centre_row") and sc["release"].get("use_lonlat"):
                res.probes["release_row_in_the_middle_of_the_array"] += 1
        # ---- released positions
        if sc["release"].get("use_lonlat"):
            pre, post = run.rec.snap_by_step("release.pre"), run.rec.snap_by_step("release.post")
            rows = {r["tag"]: r for r in sc["release"]["rows"]}
            for st in sorted(post):
                if st not in pre:
                    continue
                n0 = pre[st]["n"]
                newX, newY, tags = post[st]["vars"]["X"][n0:], post[st]["vars"]["Y"][n0:], post[st]["vars"]["tag"][n0:]
                for x, y, t in zip(newX, newY, tags):
                    r = rows[int(t)]
                    lon, lat = xy_to_lonlat(sc, np.array([x]), np.array([y]))
                    resid = (lon[0] - r["lon"]) ** 2 + (lat[0] - r["lat"]) ** 2
                    judged += 1
                    if not resid < 1e-7:
                        res.add(Violation("C16.release_position", st, f"row tag {t} given as lon/lat",
                                          f"starts at ({x:.6f},{y:.6f}), residual {resid:.3g} deg^2",
                                          f"near ({r['X']},{r['Y']}), residual < 1e-7"))
        # ---- lon/lat in the output
        R = readback.Records(readback.list_output_files(d))
        nrec = 0
        for k, r in enumerate(R.recs):
            if "lon" not in r["data"] or "X" not in r["data"]:
                continue
            if r["layout"] == "sparse":
                X, Y = np.asarray(r["data"]["X"], float), np.asarray(r["data"]["Y"], float)
                lon, lat = np.asarray(r["data"]["lon"], float), np.asarray(r["data"]["lat"], float)
            else:
                m = readback.dense_members(r)
                X, Y = np.asarray(r["data"]["X"], float)[m], np.asarray(r["data"]["Y"], float)[m]
                lon, lat = np.asarray(r["data"]["lon"], float)[m], np.asarray(r["data"]["lat"], float)[m]
            if not len(X):
                continue
            nrec += 1
            tl, tt = xy_to_lonlat(sc, X, Y)
            bad = (np.abs(lon - tl) > 1e-9) | (np.abs(lat - tt) > 1e-9)
            if bad.any():
                q = int(np.nonzero(bad)[0][0])
                res.add(Violation("C16.output_lonlat", None, f"record {k} particle at ({X[q]:.6f},{Y[q]:.6f})",
                                  (lon[q], lat[q]), (tl[q], tt[q])))
                break
        if nrec:
            res.probes["output_lonlat"] += 1
        res.nontrivial = nrec >= 1 and (judged >= 1 or not sc["release"].get("use_lonlat"))
        if res.nontrivial:
            res.probes["run_" + ll["kind"]] += 1
            if sc["grid"].get("subgrid"):
                res.probes["run_subgrid"] += 1
    finally:
        world.rm_dir(d)
    return res


def execute_utility(sc) -> Result:
    from ladim.sample import sample2D

    res = Result()
    s = stream(sc["plan"]["seed"], "utility")
    res.history_key = f"utility|{sc['plan']['seed']}"
    res.nontrivial = True
    res.executions = 1
    jm, im = s.randint(3, 9), s.randint(3, 9)
    J, I = np.mgrid[0:jm, 0:im].astype(float)
    a, b, c, dd = (s.uniform(-5, 5) for _ in range(4))
    n = 40
    X = np.array([s.uniform(0, im - 1.001) for _ in range(n)])
    Y = np.array([s.uniform(0, jm - 1.001) for _ in range(n)])

    def guard(fn, what):
        try:
            return fn()
        except Exception as e:  # noqa: BLE001
            res.add(Violation("C16.crash:" + type(e).__name__ + "@sample", None, what, repr(e)[:160], "a value"))
            return None

    # exact on bilinear fields
    F = a + b * I + c * J + dd * I * J
    got = guard(lambda: sample2D(F, X, Y), "bilinear field")
    if got is not None:
        want = a + b * X + c * Y + dd * X * Y
        res.feed(np.asarray(got))
        if np.max(np.abs(got - want)) > 1e-9 * (1 + np.abs(want).max()):
            q = int(np.argmax(np.abs(got - want)))
            res.add(Violation("C16.sample2d.exact", None, f"bilinear field at ({X[q]:.4f},{Y[q]:.4f})", got[q], want[q]))
    # convex combination
    G = np.array([[s.uniform(-3, 3) for _ in range(im)] for _ in range(jm)])
    got = guard(lambda: sample2D(G, X, Y), "random field")
    i0, j0 = X.astype(int), Y.astype(int)
    corners = np.stack([G[j0, i0], G[j0 + 1, i0], G[j0, i0 + 1], G[j0 + 1, i0 + 1]])
    if got is not None:
        if ((got < corners.min(0) - 1e-12) | (got > corners.max(0) + 1e-12)).any():
            res.add(Violation("C16.sample2d.convex", None, "random field", "outside the corner range", "within"))
    # masked nodes
    M = np.array([[1.0 if s.chance(0.7) else 0.0 for _ in range(im)] for _ in range(jm)])
    undef = s.pick([-999.0, 0.0, 7.5])
    got = guard(lambda: sample2D(G, X, Y, mask=M, undef_value=undef), "masked field")
    if got is not None:
        res.probes["utility_mask"] += 1
        p_, q_ = X - i0, Y - j0
        w = np.stack([(1 - p_) * (1 - q_), (1 - p_) * q_, p_ * (1 - q_), p_ * q_])
        mk = np.stack([M[j0, i0], M[j0 + 1, i0], M[j0, i0 + 1], M[j0 + 1, i0 + 1]])
        use = (w * mk) > 0
        for k in range(n):
            if not use[:, k].any():
                if (mk[:, k] == 0).all() and got[k] != undef:
                    res.add(Violation("C16.sample2d.mask", None, f"all four nodes masked at ({X[k]:.4f},{Y[k]:.4f})", got[k], undef))
                continue
            vals = corners[:, k][use[:, k]]
            if got[k] < vals.min() - 1e-12 or got[k] > vals.max() + 1e-12:
                res.add(Violation("C16.sample2d.mask", None, f"({X[k]:.4f},{Y[k]:.4f}) with masked corners",
                                  got[k], f"within the unmasked corner values {vals}"))
                break
    # outside the grid
    Xo = X.copy()
    Yo = Y.copy()
    Xo[::3] = im + 2.0
    Yo[1::3] = -1.5
    # ... and the bands less than one cell outside each edge
    Xo[2::9] = -0.5
    Yo[5::9] = -0.25
    Xo[8::9] = im - 1.0 + 0.5
    if n > 17:
        Yo[17] = jm - 1.0          # exactly on the upper limit: outside (valid range is 0 <= y < jmax-1)
    outside = (Xo < 0) | (Xo >= im - 1) | (Yo < 0) | (Yo >= jm - 1)
    for ov in (s.pick([-1.0, 99.0, 1e20]), 0.0):
        got = guard(lambda ov=ov: sample2D(G, Xo, Yo, outside_value=ov), f"outside_value={ov}")
        if got is not None:
            if ov == 0.0:
                res.probes["utility_outside_zero"] += 1
            bad = outside & (np.asarray(got) != ov)
            if bad.any():
                q = int(np.nonzero(bad)[0][0])
                res.add(Violation("C16.sample2d.outside", None, f"outside_value={ov} at ({Xo[q]:.2f},{Yo[q]:.2f})", got[q], ov))
            inside_ok = ~outside & (np.abs(np.asarray(got) - sample2D(G, np.where(outside, 0.5, Xo), np.where(outside, 0.5, Yo))) > 1e-12)
            if inside_ok.any():
                res.add(Violation("C16.sample2d.outside", None, "inside points when others are outside", "changed", "unchanged"))
    # outside the grid with a mask as well: the substitute for outside wins over the substitute for "all masked",
    # whatever the mask looks like (also with land in the corner cell the outside points are parked in)
    for trial in range(3):
        M2 = np.array([[1.0 if s.chance(0.7) else 0.0 for _ in range(im)] for _ in range(jm)])
        if trial == 0:
            M2[0:2, 0:2] = 0.0
        elif trial == 1:
            M2[s.randint(0, 1), s.randint(0, 1)] = 0.0
        ov, un = s.pick([(-999.0, 0.0), (0.0, -999.0), (5.5, 7.5), (float("nan"), -1.0)])
        got = guard(lambda M2=M2, ov=ov, un=un: sample2D(G, Xo, Yo, mask=M2, undef_value=un, outside_value=ov),
                    f"mask with outside_value={ov} undef_value={un}")
        if got is None:
            continue
        res.probes["utility_mask_and_outside"] += 1
        got = np.asarray(got, dtype=float)
        bad = outside & ~((got == ov) | (np.isnan(got) & np.isnan(ov)))
        if bad.any():
            q = int(np.nonzero(bad)[0][0])
            res.add(Violation("C16.sample2d.outside", None,
                              f"mask given, outside_value={ov}, undef_value={un} at ({Xo[q]:.2f},{Yo[q]:.2f})", got[q], ov))
    return res


def execute(sc) -> Result:
    if sc["plan"]["kind"] == "utility":
        return execute_utility(sc)
    return execute_run(sc)
