"""C16 helpers (the oracle itself follows below in a later round)."""

from __future__ import annotations

import numpy as np

from ladsim import truth


def xy_to_lonlat(sc, X, Y):
    """bilinear interpolation of the grid's own lon/lat (full grid, ground truth) at X, Y"""
    lon, lat = truth.lonlat(sc)
    X = np.asarray(X, dtype=float)
    Y = np.asarray(Y, dtype=float)
    i0 = np.floor(X).astype(int)
    j0 = np.floor(Y).astype(int)
    jm, im = lon.shape
    i0 = np.clip(i0, 0, im - 2)
    j0 = np.clip(j0, 0, jm - 2)
    p, q = X - i0, Y - j0

    def bil(F):
        return ((1 - p) * (1 - q) * F[j0, i0] + p * (1 - q) * F[j0, i0 + 1]
                + (1 - p) * q * F[j0 + 1, i0] + p * q * F[j0 + 1, i0 + 1])

    return bil(lon), bil(lat)
