"""C06 - output records are faithful snapshots in a well-formed ragged or dense file."""

from __future__ import annotations

import numpy as np

from ladsim import driver, gen, readback, truth, world
from ladsim.oracles.common import Result, Violation, abstract_history, account_run, crash_violation
from ladsim.rng import stream

ID = "C06"
LEVEL = "exploration"
ANCHORS = ("ladim/out_netcdf.py",)
RULE = ("seeded release/death histories (releases at several times, deaths by the scripted IBM and by leaving the grid, "
        "records with zero particles, highest pids dead at file close), instance variables of several types, particle "
        "variables incl. time-typed, sparse and dense layout, arbitrary reference time, split files; the state at the "
        "moment Output.update is entered at an output step (recording shim) is compared with the files read back exactly as "
        "doc/source/output.rst prescribes. Non-trivial: >= 2 records and (a death or a late release or an empty "
        "record); distinct by (layout, numrec, variables, abstract step history)")
COMPONENTS = {"real": ["out_netcdf.Output (write, write_particle_variables, create_netcdf, roll-over)", "State.compactify",
                       "TimeKeeper.nctime", "Model loop", "netCDF4 on tmpfs"],
              "stub": ["synthetic ocean files", "scripted IBM"]}
ASSUMPTIONS = ["lon/lat output values are judged by C16, not here", "the history global attribute is ignored",
               "f4 variables are compared after rounding the state value to float32",
               "the file itself is judged on what doc/source/output.rst fixes: the global attribute type naming the layout "
               "(ragged / orthogonal), the dimensions, each configured variable with its configured data type, time as "
               "double; descriptive attributes are not judged"]
TIERS = {"quick": dict(runs=900, budget_s=50, shrink=150),
         "thorough": dict(runs=100000, budget_s=900, shrink=250)}
REQUIRED_PROBES = ["warm_start_records", "empty_record", "highest_pid_dead_at_close", "dense", "time_particle_variable", "death_between_records",
                   "out_of_grid_death", "multi_file", "empty_state_at_close", "packed_output_variable"]

PROFILE = gen.profile(
    nsteps=(2, 30), p_reversed=0.15, p_land=0.4, p_subgrid=0.3, rows=(1, 8), p_late_rows=0.8, p_rows_outside=0.2,
    p_continuous=0.3, p_ibm=0.85, p_kills=0.85, p_lifetime=0.35, p_deact=0.2, p_weight=0.4,
    cfl=(0.1, 0.8), p_numrec=0.55, numrec=(1, 4), p_dense=0.3, p_f4=0.5, p_pvars=0.7, p_release_time_pvar=0.5,
    p_extra_float=0.5, p_extra_time=0.35, p_temp=0.5, N=(1, 4), p_reference=0.5, period=(1, 5),
    p_lonlat_out=0.1, p_stop_extra=0.15,
)


def generate(seed: int, tier: str, idx: int) -> dict:
    s = stream(seed, "c06")
    sc = gen.gen_scenario(seed, PROFILE)
    rows = sc["release"]["rows"]
    n = sc["time"]["nsteps"]
    if s.chance(0.3) and not sc["release"].get("continuous"):
        # nothing released at the first records
        late = s.randint(1, max(1, n - 1))
        for r in rows:
            if r["step"] >= 0:
                r["step"] = max(r["step"], late)
        rows.sort(key=lambda r: r["step"])
    if s.chance(0.35) and sc.get("ibm"):
        # kill the most recently released particles (highest pids) some time before the end
        last = max(r["tag"] for r in rows)
        sc["ibm"].setdefault("kills", {}).setdefault(str(s.randint(0, max(0, n - 1))), []).append(last)
    if s.chance(0.15) and sc.get("ibm"):
        # everybody dies
        sc["ibm"].setdefault("kills", {})[str(s.randint(0, max(0, n - 1)))] = [r["tag"] for r in rows]
    if sc["output"].get("numrec") and sc["output"].get("layout", "sparse") == "sparse" and s.chance(0.6):
        f4 = any(t == "f4" for t in sc["output"]["ivars"].values())
        gen.make_restartable(sc, f8=not f4)
        sc["plan"] = {"warm": True}
    elif stream(seed, "c06.packed").chance(0.3):
        # positions written packed, as examples/killer/dense.yaml does: integer type with a scale factor
        sc["output"]["ivars"]["X"] = "i4"
        sc["output"]["ivars"]["Y"] = "i2"
        sc["output"]["packed"] = {"X": 0.001, "Y": 0.01}
    return sc


def stored(value, nctype: str):
    a = np.asarray(value)
    if nctype == "f4":
        return a.astype(np.float32).astype(np.float64)
    if nctype == "f8":
        return a.astype(np.float64)
    return a.astype(np.int64)


def is_fill(x: np.ndarray) -> np.ndarray:
    x = np.asarray(x)
    if x.dtype.kind == "f":
        return np.isnan(x) | (np.abs(x) > 9.0e36)
    return (x == -2147483647) | (x == -32767) | (x == -9223372036854775806)


def same_packed(got, state_value, scale: float) -> bool:
    """a packed variable holds the state value to half a unit of its scale factor"""
    got, want = np.asarray(got, dtype=float), np.asarray(state_value, dtype=float)
    return got.shape == want.shape and bool(np.all(np.abs(got - want) <= 0.5000001 * scale + 1e-12))


def same(a, b) -> bool:
    a, b = np.asarray(a), np.asarray(b)
    if a.shape != b.shape:
        return False
    if a.dtype.kind == "f" or b.dtype.kind == "f":
        return bool(np.array_equal(a.astype(float), b.astype(float), equal_nan=True))
    return bool(np.array_equal(a, b))


def pvar_expected(sc, snap, name: str, npid: int, ref_t):
    v = snap["vars"][name][:npid]
    if v.dtype.kind == "M" or v.dtype == object:
        v = np.array([np.datetime64(x, "s") for x in v], dtype="M8[s]")
        return (v - ref_t) / np.timedelta64(1, "s")
    return v


def execute(sc) -> Result:
    res = Result()
    d = world.new_dir()
    try:
        run = driver.run_scenario(sc, d)
        account_run(res, run, sc)
        out = sc["output"]
        layout = out.get("layout", "sparse")
        res.history_key = "|".join(map(str, (layout, out.get("numrec", 0), sorted(out["ivars"].items()),
                                             sorted(out.get("pvars", {}).items()), out["period"]))) + "|" + abstract_history(run, sc)
        check_run(res, sc, run, d, "out", truth.t_ref(sc))
        # ---- the same for a run that is warm-started from the first completed file (records are then written
        #      at steps that do not start at zero; the time coordinate must still be the model time)
        plan = sc.get("plan", {})
        files = readback.list_output_files(d)
        if plan.get("warm") and run.error is None and layout == "sparse" and out.get("numrec") and len(files) >= 2:
            first = readback.OutFile(files[0])
            if first.nrec == out["numrec"]:
                run2 = driver.run_scenario(sc, d, write=False, warm_file=str(files[0]), out_name="warm_001.nc",
                                           cfg_name="warm")
                account_run(res, run2, sc)
                ref_t = truth.t_ref(sc) if sc["time"].get("reference") else min(first.times[-1], truth.t_stop(sc))
                check_run(res, sc, run2, d, "warm", ref_t, warm=True)
                if run2.error is None:
                    res.probes["warm_start_records"] += 1
    finally:
        world.rm_dir(d)
    return res


def check_run(res: Result, sc, run, d, stem: str, ref_t, warm: bool = False) -> None:
        out = sc["output"]
        layout = out.get("layout", "sparse")
        v, foreign = crash_violation(ID, run, ANCHORS)
        if v is not None:
            res.add(v)
        if foreign:
            res.aborted_foreign += 1
        rec = run.rec
        writes = rec.record_snaps(out["period"])
        R = readback.Records(readback.list_output_files(d, stem))
        for e in R.errors:
            if run.error is None:
                res.add(Violation("C06.unreadable", None, "file", e, "readable"))
        if run.error is None and len(R.recs) != len(writes):
            res.add(Violation("C06.members", None, "number of records", len(R.recs), f"{len(writes)} output steps"))
        # --- what doc/source/output.rst says about the file itself: the global attribute that tells the two layouts
        # apart, the dimensions, every variable with the configured data type on the documented dimension, time as double
        # (descriptive attributes are not part of the statement: LADiM drops the configured attributes of particle
        # variables unless they mention reference_time - seen, not judged)
        for f in R.files:
            if run.error is not None:
                break
            typ = str(f.attrs.get("type", ""))
            word = "orthogonal" if layout == "dense" else "ragged"
            if word not in typ or f.layout != layout:
                res.add(Violation("C06.format", None, f"{f.name}: global attribute type / dimensions",
                                  f"{typ!r}, dimensions {sorted(f.dims)}", f"a {word} array file"))
            if f.var_dtype.get("time") != np.dtype("f8"):
                res.add(Violation("C06.format", None, f"{f.name}: time", str(f.var_dtype.get("time")), "double"))
            want_dim = ("time", "particle") if layout == "dense" else ("particle_instance",)
            for group, dim in (("ivars", want_dim), ("pvars", ("particle",))):
                for name, nctype in out.get(group, {}).items():
                    if layout == "dense" and name == "pid":
                        continue
                    if name not in f.vars:
                        res.add(Violation("C06.format", None, f"{f.name}: variable {name}", "missing", "present"))
                        continue
                    if f.var_dtype[name] != np.dtype(nctype) or f.var_dims[name] != dim:
                        res.add(Violation("C06.format", None, f"{f.name}: variable {name}",
                                          f"{f.var_dtype[name]} {f.var_dims[name]}", f"{np.dtype(nctype)} {dim}"))
            res.probes["file_format_judged"] += 1
        ivars = {k: t for k, t in out["ivars"].items() if k not in ("lon", "lat")}
        packed = out.get("packed", {})
        if packed and run.error is None:
            res.probes["packed_output_variable"] += 1
        if layout == "dense":
            ivars.pop("pid", None)
        # deaths between records: the living count drops inside a tracker or an IBM call
        deaths = 0
        for a_lab, b_lab in (("tracker.pre", "tracker.post"), ("ibm.pre", "ibm.post")):
            A, B = rec.snap_by_step(a_lab), rec.snap_by_step(b_lab)
            for st in A:
                if st in B and A[st]["vars"]["alive"].sum() > B[st]["vars"]["alive"].sum():
                    deaths += 1
        empty = 0
        last_of_file: dict[int, int] = {}
        for k, (snap, r) in enumerate(zip(writes, R.recs)):
            last_of_file[r["file"]] = k
            alive = snap["vars"]["alive"].astype(bool)
            pid = snap["vars"]["pid"][alive]
            empty += int(alive.sum() == 0)
            f = R.files[r["file"]]
            for key in sorted(r["data"]):
                res.feed(r["data"][key])
            # --- time coordinate
            if r["time"] != snap["time"]:
                res.add(Violation("C06.time", snap["step"], f"record {k}", str(r["time"]), str(snap["time"])))
            units = f.var_attrs["time"].get("units", "")
            want_units = f"seconds since {ref_t}"
            if units.replace(" ", "T", 2).replace("T", " ", 2) != want_units.replace("T", " ", 2) and \
                    np.datetime64(units.split("since")[1].strip().replace(" ", "T"), "s") != ref_t:
                res.add(Violation("C06.time", snap["step"], "time units", units, want_units))
            raw = f.raw_times[r["index"]]
            want_raw = float((snap["time"] - ref_t) / np.timedelta64(1, "s"))
            if raw != want_raw:
                res.add(Violation("C06.time", snap["step"], f"record {k} raw value", raw, want_raw))
            # --- members and values
            if layout == "sparse":
                got_pid = np.asarray(r["data"].get("pid", []))
                if not same(got_pid, pid):
                    res.add(Violation("C06.members", snap["step"], f"record {k} pids", got_pid, pid))
                    continue
                for name, nct in ivars.items():
                    if name not in r["data"]:
                        res.add(Violation("C06.values", snap["step"], f"{name} missing in file", "", name))
                        continue
                    if name in packed:
                        if not same_packed(r["data"][name], snap["vars"][name][alive], packed[name]):
                            res.add(Violation("C06.values", snap["step"], f"record {k} {name} (packed, scale {packed[name]})",
                                              r["data"][name], snap["vars"][name][alive]))
                        continue
                    want = stored(snap["vars"][name][alive], nct)
                    if not same(r["data"][name], want):
                        res.add(Violation("C06.values", snap["step"], f"record {k} {name}", r["data"][name], want))
            else:
                for name, nct in ivars.items():
                    if name not in r["data"]:
                        res.add(Violation("C06.values", snap["step"], f"{name} missing in file", "", name))
                        continue
                    row = np.asarray(r["data"][name])
                    want = stored(snap["vars"][name][alive], nct)
                    if len(pid) and (pid.max() >= len(row)):
                        res.add(Violation("C06.members", snap["step"], f"record {k} {name}: particle dimension",
                                          len(row), f"> {pid.max()}"))
                        continue
                    if name in packed:
                        if not same_packed(row[pid], snap["vars"][name][alive], packed[name]):
                            res.add(Violation("C06.values", snap["step"], f"record {k} {name} at alive pids (packed, scale "
                                              f"{packed[name]})", row[pid], snap["vars"][name][alive]))
                    elif not same(row[pid], want):
                        res.add(Violation("C06.values", snap["step"], f"record {k} {name} at alive pids", row[pid], want))
                    others = np.ones(len(row), dtype=bool)
                    others[pid] = False
                    if name in packed:      # read back scaled: the fill value shows as fill x scale factor
                        row = np.rint(row / packed[name]).astype(np.int64)
                    if not is_fill(row[others]).all():
                        bad = np.nonzero(others & ~is_fill(row))[0]
                        res.add(Violation("C06.dense_fill", snap["step"],
                                          f"record {k} {name} at pids {bad[:5].tolist()} (dead or not yet released)",
                                          row[bad][:5], "fill value"))
                for name in ("lon", "lat"):
                    if name in r["data"]:
                        row = np.asarray(r["data"][name])
                        others = np.ones(len(row), dtype=bool)
                        others[pid[pid < len(row)]] = False
                        if not is_fill(row[others]).all():
                            bad = np.nonzero(others & ~is_fill(row))[0]
                            res.add(Violation("C06.dense_fill", snap["step"],
                                              f"record {k} {name} at pids {bad[:5].tolist()} (dead or not yet released)",
                                              row[bad][:5], "fill value"))
        # --- per file: counts and particle variables
        for fi, f in enumerate(R.files):
            if layout == "sparse" and "particle_count" in f.vars:
                tot = int(np.sum(f.vars["particle_count"]))
                if tot != f.dims.get("particle_instance"):
                    res.add(Violation("C06.count_sum", None, f.name, tot, f.dims.get("particle_instance")))
                for name in f.instance_vars:
                    if len(f.vars[name]) != tot:
                        res.add(Violation("C06.count_sum", None, f"{f.name} {name}", len(f.vars[name]), tot))
            if fi not in last_of_file or run.error is not None:
                continue
            snap = writes[last_of_file[fi]]
            npid = snap["npid"]
            alive = snap["vars"]["alive"].astype(bool)
            if npid and (not alive.any() or snap["vars"]["pid"][alive].max() < npid - 1):
                res.probes["highest_pid_dead_at_close"] += 1
            if not alive.any():
                res.probes["empty_state_at_close"] += 1
            for name, nct in out.get("pvars", {}).items():
                if name not in f.vars:
                    res.add(Violation("C06.particle_var", None, f"{f.name} {name}", "missing", "present"))
                    continue
                got = np.asarray(f.vars[name])
                want = stored(pvar_expected(sc, snap, name, npid, ref_t), nct)
                units = f.var_attrs.get(name, {}).get("units")
                if isinstance(units, str) and units.startswith("seconds since ") and "reference_time" not in units:
                    # a time-typed particle variable that carries CF units must decode, with the units the file
                    # itself states, to the times the particles hold: its epoch is the epoch the numbers count from
                    try:
                        epoch = np.datetime64(units[len("seconds since "):].strip().replace(" ", "T"), "s")
                    except ValueError:
                        epoch = None
                    if epoch is not None:
                        res.probes["time_pvar_units_judged"] += 1
                    if epoch is not None and epoch != ref_t:
                        res.add(Violation("C06.particle_var", snap["step"], f"{f.name} {name}: units attribute",
                                          units, f"seconds since {ref_t} (the epoch its numbers are counted from)"))
                if len(got) < npid or not same(got[:npid], want):
                    res.add(Violation("C06.particle_var", snap["step"],
                                      f"{f.name} {name}[0:{npid}] (particles released up to the file's last record)",
                                      got[:npid + 2], want))
        res.nontrivial = res.nontrivial or len(writes) >= 2 and (deaths > 0 or empty > 0 or len({r["step"] for r in sc["release"]["rows"]}) > 1)
        if empty:
            res.probes["empty_record"] += 1
        if layout == "dense":
            res.probes["dense"] += 1
        if "time_particle_variable" in gen.features(sc) and out.get("pvars"):
            res.probes["time_particle_variable"] += 1
        if deaths:
            res.probes["death_between_records"] += 1
        if len(R.files) > 1:
            res.probes["multi_file"] += 1
        tp, tq = rec.snap_by_step("tracker.pre"), rec.snap_by_step("tracker.post")
        if any(st in tq and tp[st]["vars"]["alive"].sum() > tq[st]["vars"]["alive"].sum() for st in tp):
            res.probes["out_of_grid_death"] += 1
