"""C09 - particles stay in the water inside the domain; the dead stay dead."""

from __future__ import annotations

import numpy as np

from ladsim import driver, gen, readback, refmodel, truth, world
from ladsim.oracles import c01
from ladsim.oracles.common import Result, Violation, abstract_history, account_run, crash_violation
from ladsim.rng import stream

ID = "C09"
LEVEL = "exploration"
ANCHORS = ("ladim/tracker.py",)
RULE = ("seeded coastlines (islands, one-cell channels, land strips), strong flows towards land and towards the open "
        "boundary (per-step displacement up to 0.95 cell), diffusion on (seeded RNG seam) and off, EF/RK2/RK4, "
        "inactive particles from the scripted IBM; after Tracker.update and after IBM.update of every step: every "
        "living particle finite, inside the valid region and in a sea cell of the scenario's own mask; with diffusion "
        "off the reference move (forcing's own velocity at the stage positions, ground-truth spacing) decides: "
        "target outside the valid region -> dead from then on and absent from every later record; target on land -> "
        "position unchanged; inactive -> not moved; no False -> True transition of alive; no pid returns to a later "
        "record. Non-trivial: a land cancel, an out-of-grid kill or an inactive particle occurred; distinct by "
        "(mask, scheme, diffusion on/off, abstract history)")
COMPONENTS = {"real": ["Tracker.update (kill, inactive restore, land cancel)", "ROMS Grid.ingrid/atsea", "ROMS Forcing",
                       "Model loop", "Output"],
              "stub": ["synthetic ocean files", "scripted IBM", "seeded numpy Generator", "reference move (oracle)"]}
ASSUMPTIONS = ["a target within 1e-6 of the valid-region border or of a cell edge is not judged (tie)",
               "whether an inactive particle whose hypothetical move would leave the grid dies is not judged",
               "RK steps whose stage positions leave the valid region are judged by the safety invariants only"]
TIERS = {"quick": dict(runs=1500, budget_s=55, shrink=150),
         "thorough": dict(runs=150000, budget_s=900, shrink=250)}
REQUIRED_PROBES = ["land_cancel", "out_of_grid_kill", "inactive", "diffusion", "channel_or_island", "rk_stage_outside", "warm_start", "dead_rows_at_the_move"]

PROFILE = gen.profile(
    nsteps=(3, 40), p_reversed=0.2, p_land=0.9, p_islands=0.8, p_channel=0.4, p_subgrid=0.4, p_bathy_var=0.3,
    flow_kinds=(("const", 3), ("linear", 2), ("sinus", 2), ("rot", 1)), cfl=(0.3, 0.95), p_time_dependent=0.6,
    p_levels=0.4, N=(1, 3), rows=(4, 16), p_late_rows=0.5, p_continuous=0.2, p_ibm=0.7, p_kills=0.3, p_deact=0.7,
    p_lifetime=0.1, schemes=(("EF", 2), ("RK2", 2), ("RK4", 2)), p_diffusion=0.4, p_temp=0.2,
    p_numrec=0.2, p_dense=0.15, p_pvars=0.1, p_extra_time=0.0, p_lonlat_out=0.0, period=(1, 4), grid_i=(8, 14),
    grid_j=(8, 12),
)


def generate(seed: int, tier: str, idx: int) -> dict:
    s = stream(seed, "c09")
    sc = gen.gen_scenario(seed, PROFILE)
    if s.chance(0.3):
        # the invariants must also hold across a warm start (a particle killed in the first step after the
        # restart must not come back in the restarted run's records)
        sc["output"]["numrec"] = s.randint(1, 3)
        sc["output"]["period"] = s.pick([1, 1, 2])
        sc.get("spell", {}).pop("period", None)
        gen.make_restartable(sc)
        sc["plan"] = {"warm": True}
    elif s.chance(0.35):
        # a module other than the IBM marks particles dead in the middle of a step (after the forcing, before the
        # move), as a user's forcing or output plug-in may: the dead rows are still in the state when the tracker runs
        per, n = sc["output"]["period"], sc["time"]["nsteps"]
        steps = [k for k in range(1, n) if k % per]
        tags = [r["tag"] for r in sc["release"]["rows"]]
        if steps and tags:
            ek = {}
            for k in s.sample(steps, min(len(steps), s.randint(1, 3))):
                ek[str(k)] = s.sample(tags, min(len(tags), s.randint(1, 3)))
            sc["plan"] = {"early_kills": ek}
    return sc


def execute(sc) -> Result:
    res = Result()
    sc = dict(sc)
    plan = sc.pop("plan", {})
    diffusion = bool(sc["tracker"].get("diffusion"))
    store: dict = {}
    monitor, ref = c01.make_monitor(sc, store)
    early = plan.get("early_kills") or {}

    def killer(label, snap, rec):
        if label == "forcing.post" and str(snap["step"]) in early:
            st = rec.modules["state"]
            hit = np.isin(st["tag"], early[str(snap["step"])]) & st["alive"]
            if hit.any():
                st["alive"] = st["alive"] & ~hit
                res.faults["killed_between_forcing_and_move"] += 1
                res.probes["dead_rows_at_the_move"] += 1

    d = world.new_dir()
    try:
        run = driver.run_scenario(sc, d, monitors=([] if diffusion else [monitor]) + ([killer] if early else []),
                                  rng_seed=truth.dt_s(sc))
        account_run(res, run, sc)
        scheme = sc["tracker"].get("advection", "EF")
        res.history_key = "|".join(map(str, (hash(str(sc["grid"].get("mask"))) % 99991, scheme, diffusion,
                                             bool(plan.get("warm"))))) + "|" + abstract_history(run, sc)
        check_run(res, sc, run, d, "out", store, ref, truth.t_start(sc), diffusion, scheme)
        # ---- the same invariants for a run warm-started from the first completed file of this one
        files = readback.list_output_files(d)
        if plan.get("warm") and run.error is None and len(files) >= 2:
            first = readback.OutFile(files[0])
            if first.nrec == sc["output"]["numrec"] and first.nrec:
                store2: dict = {}
                monitor2, _ = c01.make_monitor(sc, store2)
                run2 = driver.run_scenario(sc, d, write=False, warm_file=str(files[0]), out_name="warm_001.nc",
                                           cfg_name="warm", monitors=[] if diffusion else [monitor2],
                                           rng_seed=truth.dt_s(sc) + 1)
                account_run(res, run2, sc)
                check_run(res, sc, run2, d, "warm", store2, ref, first.times[-1], diffusion, scheme)
                if run2.error is None:
                    res.probes["warm_start"] += 1
    finally:
        world.rm_dir(d)
    return res


def check_run(res: Result, sc, run, d, stem: str, store: dict, ref, t_zero, diffusion: bool, scheme: str) -> None:
    v, foreign = crash_violation(ID, run, ANCHORS)
    if v is not None:
        res.add(v)
    if foreign:
        res.aborted_foreign += 1
    rec = run.rec
    mask = truth.mask_rho(sc)
    if sc["grid"].get("mask", "open") != "open":
        res.probes["channel_or_island"] += 1
    if diffusion:
        res.probes["diffusion"] += 1
    # ---- safety invariants on every snapshot after the move and after the IBM
    dead_since: dict[int, int] = {}
    for s in rec.snaps:
        if s["label"] not in ("tracker.pre", "tracker.post", "ibm.pre", "ibm.post", "output.pre", "forcing.post"):
            continue
        X, Y = s["vars"]["X"].astype(float), s["vars"]["Y"].astype(float)
        alive = s["vars"]["alive"].astype(bool)
        pid = s["vars"]["pid"]
        res.feed(X, Y, alive)
        fin = np.isfinite(X) & np.isfinite(Y)
        if (alive & ~fin).any():
            p = int(np.nonzero(alive & ~fin)[0][0])
            res.add(Violation("C09.nonfinite", s["step"], f"{s['label']} pid {pid[p]}", (X[p], Y[p]), "finite"))
            continue
        ok = alive & fin
        inside = np.zeros(len(X), dtype=bool)
        inside[ok] = ref.in_valid(X[ok], Y[ok])
        if (ok & ~inside).any():
            p = int(np.nonzero(ok & ~inside)[0][0])
            res.add(Violation("C09.outside", s["step"], f"{s['label']} pid {pid[p]} alive at ({X[p]:.6f},{Y[p]:.6f})",
                              "outside the valid region", truth.valid_region(sc)))
        chk = ok & inside
        chk[chk] = ~ref.near_tie(X[chk], Y[chk])
        sea = np.ones(len(X), dtype=bool)
        sea[chk] = ref.at_sea(X[chk], Y[chk])
        if (~sea).any():
            p = int(np.nonzero(~sea)[0][0])
            res.add(Violation("C09.on_land", s["step"], f"{s['label']} pid {pid[p]} alive at ({X[p]:.6f},{Y[p]:.6f})",
                              "land cell", "sea cell"))
        for q, a in zip(pid.tolist(), alive.tolist()):
            if not a:
                dead_since.setdefault(int(q), s["step"])
            elif q in dead_since:
                res.add(Violation("C09.resurrected", s["step"], f"{s['label']} pid {q}",
                                  f"alive again (dead since step {dead_since[q]})", "dead stays dead"))
    # ---- the decision of every step, diffusion off
    pre = rec.snap_by_step("tracker.pre")
    post = rec.snap_by_step("tracker.post")
    xlo, xhi, ylo, yhi = truth.valid_region(sc)
    killed_by_move: dict[int, int] = {}
    for n in sorted(pre):
        if n not in post or post[n]["n"] != pre[n]["n"]:
            continue
        a, b = pre[n]["vars"], post[n]["vars"]
        X0, Y0, X1, Y1 = a["X"], a["Y"], b["X"], b["Y"]
        alive0, active0 = a["alive"].astype(bool), a["active"].astype(bool)
        inact = alive0 & ~active0
        if inact.any():
            res.probes["inactive"] += 1
            moved = inact & ((X1 != X0) | (Y1 != Y0))
            if moved.any():
                p = int(np.nonzero(moved)[0][0])
                res.add(Violation("C09.inactive_moved", n, f"pid {a['pid'][p]}", (X1[p], Y1[p]), (X0[p], Y0[p])))
        lost = alive0 & ~b["alive"].astype(bool)
        for q in a["pid"][lost].tolist():
            killed_by_move.setdefault(int(q), n)
        if lost.any():
            res.probes["out_of_grid_kill"] += 1
        if diffusion or n not in store:
            continue
        exp = store[n]
        if not exp["inside"].all():
            res.probes["rk_stage_outside"] += 1
        # "RK2"/"RK4" name families: a decision is judged only where every named tableau of the order agrees
        eps = 1e-6
        clear_out = land = water = None
        xe = ye = None
        for _name, (dX, dY) in exp["disp"].items():
            xe, ye = X0 + dX, Y0 + dY
            judge = alive0 & active0 & exp["inside"] & np.isfinite(xe) & np.isfinite(ye)
            co = judge & ((xe < xlo - eps) | (xe > xhi + eps) | (ye < ylo - eps) | (ye > yhi + eps))
            clear_in = judge & (xe > xlo + eps) & (xe < xhi - eps) & (ye > ylo + eps) & (ye < yhi - eps)
            ci = clear_in.copy()
            ci[clear_in] = ~ref.near_tie(xe[clear_in], ye[clear_in])
            ld = np.zeros(len(xe), dtype=bool)
            ld[ci] = ~ref.at_sea(xe[ci], ye[ci])
            wt = ci & ~ld
            clear_out = co if clear_out is None else clear_out & co
            land = ld if land is None else land & ld
            water = wt if water is None else water & wt
        alive1 = b["alive"].astype(bool)
        bad = clear_out & alive1
        if bad.any():
            p = int(np.nonzero(bad)[0][0])
            res.add(Violation("C09.not_killed", n, f"pid {a['pid'][p]} target ({xe[p]:.6f},{ye[p]:.6f}) outside the valid region",
                              f"alive at ({X1[p]:.6f},{Y1[p]:.6f})", "dead"))
        bad = land & ((X1 != X0) | (Y1 != Y0))
        if land.any():
            res.probes["land_cancel"] += 1
        if bad.any():
            p = int(np.nonzero(bad)[0][0])
            res.add(Violation("C09.land_move", n, f"pid {a['pid'][p]} target ({xe[p]:.6f},{ye[p]:.6f}) on land",
                              (X1[p], Y1[p]), f"unchanged ({X0[p]},{Y0[p]})"))
        bad = land & ~alive1
        if bad.any():
            p = int(np.nonzero(bad)[0][0])
            res.add(Violation("C09.land_move", n, f"pid {a['pid'][p]} target on land", "killed", "stays, alive"))
        # a particle with a clear in-water target must not die in the tracker
        bad = water & ~alive1
        if bad.any():
            p = int(np.nonzero(bad)[0][0])
            res.add(Violation("C09.killed_in_water", n, f"pid {a['pid'][p]} target ({xe[p]:.6f},{ye[p]:.6f}) in open water",
                              "dead after the move", "alive"))
    # ---- records: a pid that left the records never returns; killed particles are absent afterwards
    R = readback.Records(readback.list_output_files(d, stem))
    gone: dict[int, int] = {}
    seen: set[int] = set()
    dt = truth.dt_s(sc)
    for k, r in enumerate(R.recs):
        if r["layout"] == "sparse":
            members = set(np.asarray(r["data"]["pid"]).astype(int).tolist())
        else:
            members = set(readback.dense_members(r).tolist())
        st = int(truth.sgn(sc) * (r["time"] - t_zero) / np.timedelta64(1, "s")) // dt
        back = [p for p in members if p in gone]
        if back:
            res.add(Violation("C09.resurrected", st, f"record {k}", f"pids {back} absent since record {gone[back[0]]} reappear",
                              "never"))
        late = [p for p in members if p in killed_by_move and st > killed_by_move[p]]
        if late:
            res.add(Violation("C09.not_killed", st, f"record {k}", f"pids {late} killed by leaving the grid at steps "
                              f"{[killed_by_move[p] for p in late]} still present", "absent"))
        for p in seen - members:
            gone.setdefault(p, k)
        seen |= members
    res.nontrivial = res.nontrivial or bool(res.probes["land_cancel"] or res.probes["out_of_grid_kill"] or res.probes["inactive"])

