"""C07 - every scheduled output time is written for any duration, period, file split."""

from __future__ import annotations

import copy

import numpy as np

from ladsim import driver, gen, readback, truth, world
from ladsim.oracles.common import Result, Violation, abstract_history, account_run, crash_violation
from ladsim.rng import stream

ID = "C07"
LEVEL = "exploration"
RULE = ("cold-start runs of the real model over (Nsteps, output period, numrec, layout, direction, "
        "particle variables); thorough enumerates Nsteps 1..14 x period 1..7 x numrec 0..5 x 2 layouts x "
        "2 directions x 2 (4704 cases) and adds random larger ones; quick draws a seeded sample of the same grid. "
        "Every case is non-trivial (the model ran to the end or aborted); two cases are distinct when "
        "(Nsteps, period, numrec, layout, direction, pvars) or the abstract step history differ")
COMPONENTS = {"real": ["ladim.model.Model", "configure", "TimeKeeper", "ROMS Grid/Forcing", "ParticleReleaser",
                       "Tracker", "out_netcdf.Output", "netCDF4 on tmpfs"],
              "stub": ["ocean model output (synthetic forcing files)", "scripted IBM"]}
ASSUMPTIONS = ["output file names follow doc/source/output.rst: stem_000.nc, stem_001.nc, ... when numrec is set",
               "the history global attribute (wall-clock date) is ignored"]
TIERS = {"quick": dict(runs=640, budget_s=45, shrink=120),
         "thorough": dict(runs=4704 + 6000, budget_s=900, shrink=200)}
EXHAUSTIVE = {"thorough": True}
GRID = [(n, p, r, lay, rev, pv) for n in range(1, 15) for p in range(1, 8) for r in range(0, 6)
        for lay in ("sparse", "dense") for rev in (False, True) for pv in (False, True)]

PROFILE = gen.profile(p_land=0.2, p_subgrid=0.1, p_packed=0.1, p_temp=0.2, p_stop_extra=0.2,
                      p_ibm=0.5, p_continuous=0.3, cfl=(0.02, 0.3), N=(1, 3), p_lonlat_out=0.05,
                      p_extra_time=0.0)


def generate(seed: int, tier: str, idx: int) -> dict:
    s = stream(seed, "c07")
    if tier == "thorough" and idx < len(GRID):
        n, p, r, lay, rev, pv = GRID[idx]
    elif s.chance(0.8):
        n, p, r, lay, rev, pv = s.pick(GRID)
    else:
        n, p, r = s.randint(15, 60), s.randint(1, 12), s.randint(0, 7)
        lay, rev, pv = s.pick(["sparse", "dense"]), s.chance(0.3), s.chance(0.5)
        if s.chance(0.12):
            n, p, r = s.randint(101, 125), 1, 1       # more than a hundred files: the counter outgrows its width
            lay = "sparse"                             # (a dense run of that length takes half a minute)
    prof = dict(PROFILE, nsteps=(n, n), period=(p, p), p_reversed=1.0 if rev else 0.0,
                p_numrec=1.0 if r else 0.0, numrec=(max(r, 1), max(r, 1)),
                p_dense=1.0 if lay == "dense" else 0.0,
                p_pvars=1.0 if pv else 0.0, p_release_time_pvar=1.0 if pv else 0.0)
    sc = gen.gen_scenario(seed, prof)
    if not pv:
        sc["output"].pop("pvars", None)
        sc["output"].pop("release_time_pvar", None)
    if s.chance(0.25):
        sc["output"]["filename"] = s.pick(["res_07.nc", "a_b_0098.nc", "run42.nc", "x_1.nc", "north-sea_004.nc",
                                           "run.v2_08.nc", "2015-01_000.nc", "fjord-a.nc"])
    return sc


def expected_records(sc) -> list[tuple[int, np.datetime64]]:
    n, p = sc["time"]["nsteps"], sc["output"]["period"]
    return [(k, truth.step_time(sc, k)) for k in range(0, n, p)]


def expected_files(sc, nrec: int) -> list[tuple[str, int]]:
    """doc/source/output.rst and the docstring of filename_generator: out.nc -> out_000.nc, out_001.nc, ...;
    a prototype ending in _<digits> starts at that number with that width: res_07.nc -> res_07.nc, res_08.nc"""
    import re

    r = sc["output"].get("numrec", 0)
    proto = sc["output"].get("filename", "out.nc")
    if not r:
        return [(proto, nrec)]
    stem = proto[:-3]
    m = re.search(r"_(\d+)$", stem)
    if m:
        first, width, base = int(m.group(1)), len(m.group(1)), stem[: m.start()]
    else:
        first, width, base = 0, 3, stem
    out, k, num = [], 0, first
    while k < nrec or not out:
        mrec = min(r, nrec - k)
        out.append((f"{base}_{num:0{width}d}.nc", mrec))
        k += r
        num += 1
    return out


def output_files(d) -> list:
    """every NetCDF file the run left behind that is not part of the world, in numbering order"""
    import re

    files = [p for p in d.glob("*.nc") if not p.name.startswith(("grid", "forcing"))]

    def key(p):
        m = re.search(r"_(\d+)\.nc$", p.name)
        return (p.name[: m.start()] if m else p.name, int(m.group(1)) if m else -1)

    return sorted(files, key=key)


def _is_fill(x: np.ndarray) -> np.ndarray:
    if x.dtype.kind == "f":
        return np.isnan(x) | (np.abs(x) > 9.0e36)
    return (x == -2147483647) | (x == -9223372036854775806) | (x == -32767)


def compare_records(a, b, tol_ok=False) -> str | None:
    """a, b: record dicts from readback.Records; return a description of the first difference"""
    if a["time"] != b["time"]:
        return f"time {a['time']} vs {b['time']}"
    for k in sorted(set(a["data"]) | set(b["data"])):
        if k not in a["data"] or k not in b["data"]:
            return f"variable {k} missing on one side"
        x, y = np.asarray(a["data"][k]), np.asarray(b["data"][k])
        if a.get("layout") == "dense" and x.shape != y.shape:
            # the particle dimension of a dense file grows with the particles released so far:
            # compare the common part, the rest must be fill values
            m = min(len(x), len(y))
            rest = x[m:] if len(x) > m else y[m:]
            if not _is_fill(rest).all():
                return f"{k}: values beyond the common particle range are not fill: {rest}"
            x, y = x[:m], y[:m]
        if x.shape != y.shape:
            return f"{k}: shape {x.shape} vs {y.shape}"
        if x.dtype.kind == "f":
            same = np.array_equal(x, y, equal_nan=True)
        else:
            same = np.array_equal(x, y)
        if not same:
            return f"{k}: {x} vs {y}"
    return None


def check_files(res: Result, sc, d, tagp="C07") -> readback.Records | None:
    exp = expected_records(sc)
    files = output_files(d)
    names = [f.name for f in files]
    expf = expected_files(sc, len(exp))
    if names != [n for n, _ in expf]:
        res.add(Violation(f"{tagp}.file_names", None, "files", names, [n for n, _ in expf]))
    R = readback.Records(files)
    for e in R.errors:
        res.add(Violation(f"{tagp}.unreadable", None, "file", e, "readable file"))
    got = [f.nrec for f in R.files]
    if not R.errors and names == [n for n, _ in expf] and got != [m for _, m in expf]:
        res.add(Violation(f"{tagp}.records_per_file", None, "files", got, [m for _, m in expf]))
    times = R.times()
    if times != [t for _, t in exp]:
        res.add(Violation(f"{tagp}.record_times", None, "time coordinate",
                          [str(t) for t in times][:8], [str(t) for _, t in exp][:8]))
    for f in R.files:
        if f.layout == "sparse" and "particle_count" in f.vars:
            tot = int(np.sum(f.vars["particle_count"]))
            if tot != f.dims.get("particle_instance", -1):
                res.add(Violation(f"{tagp}.unreadable", None, f.name,
                                  f"sum(particle_count)={tot}", f"particle_instance={f.dims.get('particle_instance')}"))
    return R


def execute(sc) -> Result:
    res = Result()
    d = world.new_dir()
    try:
        # a third of the cases goes through ladim.main.main(): the real time loop decides how many steps run
        via_main = int(sc["time"]["nsteps"] * 7 + sc["output"]["period"]) % 3 == 0
        run = driver.run_scenario(sc, d, use_main=via_main)
        if via_main:
            res.probes["via_main"] += 1
        account_run(res, run, sc)
        res.history_key = "|".join(str(x) for x in (
            sc["time"]["nsteps"], sc["output"]["period"], sc["output"].get("numrec", 0),
            sc["output"].get("layout", "sparse"), bool(sc["time"].get("reversed")),
            bool(sc["output"].get("pvars")))) + "|" + abstract_history(run, sc)
        res.nontrivial = True
        v, _ = crash_violation(ID, run, promises_completion=True)
        if v is not None:
            res.add(v)
            return res       # the abnormal end is the violation; what it left behind is not judged
        R = check_files(res, sc, d)
        for r in R.recs:
            res.feed(r["time"], *[r["data"][k] for k in sorted(r["data"])])
        n, p, nr = sc["time"]["nsteps"], sc["output"]["period"], sc["output"].get("numrec", 0)
        if nr and len(expected_records(sc)) > 100 * nr:
            res.probes["more_than_100_files"] += 1
        if n % p:
            res.probes["nsteps_not_multiple_of_period"] += 1
        if nr and len(expected_records(sc)) % nr:
            res.probes["last_file_short"] += 1
        if nr and len(expected_records(sc)) % nr == 0:
            res.probes["last_file_full"] += 1
        # split versus unsplit
        if nr:
            sc2 = copy.deepcopy(sc)
            sc2["output"]["numrec"] = 0
            d2 = world.new_dir()
            try:
                run2 = driver.run_scenario(sc2, d2)
                account_run(res, run2, sc2)
                v2, _ = crash_violation(ID, run2, promises_completion=True)
                if v2 is not None:
                    res.add(v2)
                    return res
                R2 = readback.Records(output_files(d2))
                if run.error is None and run2.error is None:
                    if len(R.recs) != len(R2.recs):
                        res.add(Violation("C07.split_vs_unsplit", None, "number of records",
                                          len(R.recs), len(R2.recs)))
                    else:
                        for k, (a, b) in enumerate(zip(R.recs, R2.recs)):
                            diff = compare_records(a, b)
                            if diff:
                                res.add(Violation("C07.split_vs_unsplit", None, f"record {k}", diff, "equal"))
                                break
                    res.probes["split_vs_unsplit_compared"] += 1
            finally:
                world.rm_dir(d2)
    finally:
        world.rm_dir(d)
    return res
