"""C17 - compiled sampling kernels never read outside the forcing arrays."""

from __future__ import annotations

import os

import numpy as np

from ladsim import driver, gen, truth, world
from ladsim.oracles import c01, c02, c03, c09, c10, c14, c15
from ladsim.oracles.common import Result, Violation, abstract_history, account_run
from ladsim.rng import stream

ID = "C17"
LEVEL = "exploration"
RULE = ("the scenario spaces of C01, C02, C03, C09, C10, C14 and C15 (plus a profile of fast flow towards the open "
        "boundary with RK2/RK4, subgrids, diffusion, particles at the surface and at the bottom, one to eight levels) "
        "executed with NUMBA_BOUNDSCHECK=1 set before numba is imported, so that every out-of-range access of a "
        "compiled kernel raises IndexError; in addition every position the tracker passes to forcing.velocity must lie "
        "inside the rectangle covered by the loaded fields, [xmin, xmax] x [ymin, ymax] of the chosen subgrid (outside "
        "of it a kernel must read beyond the loaded data; this also catches negative indices, which wrap silently). "
        "Non-trivial: a particle came within one cell of the border of the valid region or an RK stage position was "
        "clipped; distinct by (profile, subgrid, scheme, N, abstract history)")
COMPONENTS = {"real": ["numba kernels trilinear / z2s_kernel / RKstep / clip / RK4avg with bounds checking", "ROMS Forcing",
                       "Tracker", "Model loop"],
              "stub": ["synthetic ocean files", "scripted IBM", "seeded numpy Generator"]}
ASSUMPTIONS = ["NUMBA_BOUNDSCHECK=1 is honoured (checked at start: a deliberately out-of-range njit access must raise)",
               "negative indices wrap in numba; they are covered by the position check, not by bounds checking"]
TIERS = {"quick": dict(runs=900, budget_s=70, shrink=120),
         "thorough": dict(runs=120000, budget_s=1200, shrink=200)}
REQUIRED_PROBES = ["near_border", "rk_stage_clipped", "rk_stage_clipped_in_both_directions", "subgrid", "surface", "bottom", "diffusion", "single_level", "depthless_release"]

EDGE = gen.profile(
    nsteps=(3, 40), p_reversed=0.2, p_land=0.4, p_subgrid=0.6, p_bathy_var=0.5, N=(1, 8),
    flow_kinds=(("const", 3), ("linear", 2), ("sinus", 2), ("rot", 1)), cfl=(0.5, 0.99), p_time_dependent=0.6,
    rows=(4, 20), p_late_rows=0.5, p_continuous=0.3, p_ibm=0.3, p_deact=0.3, schemes=(("EF", 1), ("RK2", 3), ("RK4", 3)),
    p_diffusion=0.4, p_vertdiff=0.3, p_w=0.3, p_temp=0.4, p_numrec=0.2, p_dense=0.1, p_pvars=0.1, p_extra_time=0.0,
    p_lonlat_out=0.0, p_edge_positions=0.3, period=(1, 4),
)
SOURCES = [("edge", 6), ("c01", 1), ("c02", 1), ("c03", 1), ("c09", 2), ("c10", 1), ("c14", 1), ("c15", 1)]


def generate(seed: int, tier: str, idx: int) -> dict:
    s = stream(seed, "c17")
    src = s.wpick(SOURCES)
    if src == "edge":
        surge = stream(seed, "c17.surge").chance(0.2)
        sc = gen.gen_scenario(seed, dict(EDGE, p_spacing_one=1.0, p_irregular=0.0, p_time_dependent=1.0) if surge else EDGE)
        # start some particles right at the border of the valid region, at the surface and at the bottom
        xlo, xhi, ylo, yhi = truth.valid_region(sc)
        h = truth.bathymetry(sc)
        m = truth.mask_rho(sc)
        corner_flow = s.chance(0.3)
        if corner_flow:
            # a strong diagonal current: Runge-Kutta stages overshoot two limits of the valid region at once
            dx, dy = truth.metric(sc)
            dt = truth.dt_s(sc)
            keep = {k: v for k, v in sc["flow"].items() if k in ("amp_u", "amp_v", "levels", "scalars", "w")}
            sc["flow"] = dict(keep, kind="const",
                              u0=round(s.pick([-1, 1]) * s.uniform(0.7, 0.95) * float(dx.min()) / dt, 6),
                              v0=round(s.pick([-1, 1]) * s.uniform(0.7, 0.95) * float(dy.min()) / dt, 6))
        if surge:
            # slack water turning into a strong current within one time step (a forcing frame at every step)
            n_fr = len(sc["frames"]["offsets"])
            for c in ("u", "v"):
                sc["flow"]["amp_" + c] = [0.03 if k % 2 == 0 else 1.0 for k in range(n_fr)]
        for r in sc["release"]["rows"]:
            if corner_flow and s.chance(0.6):
                # right in a corner of the valid region
                r["X"] = round(s.pick([xlo + 1e-3, xhi - 1e-3]), 4)
                r["Y"] = round(s.pick([ylo + 1e-3, yhi - 1e-3]), 4)
                if m[int(round(r["Y"])), int(round(r["X"]))]:
                    hh = float(h[int(round(r["Y"])), int(round(r["X"]))])
                    r["Z"] = s.pick([0.0, round(hh, 6), round(s.uniform(0, hh), 3)])
                continue
            if s.chance(0.4):
                side = s.pick(["w", "e", "s", "n"])
                if side == "w":
                    r["X"] = round(xlo + 1e-3, 4)
                elif side == "e":
                    r["X"] = round(xhi - 1e-3, 4)
                elif side == "s":
                    r["Y"] = round(ylo + 1e-3, 4)
                else:
                    r["Y"] = round(yhi - 1e-3, 4)
                if not m[int(round(r["Y"])), int(round(r["X"]))]:
                    continue
            hh = float(h[int(round(r["Y"])), int(round(r["X"]))])
            r["Z"] = s.pick([0.0, round(hh, 6), round(s.uniform(0, hh), 3)])
        sc["release"]["rows"] = [r for r in sc["release"]["rows"] if m[int(round(r["Y"])), int(round(r["X"]))]] \
            or sc["release"]["rows"][:1]
        if s.chance(0.12):
            sc["release"]["no_z"] = True        # depth-less release: the state holds NaN depths
            sc["release"].pop("col_order", None)
            sc["tracker"].pop("vertdiff", None)
    else:
        mod = {"c01": c01, "c02": c02, "c03": c03, "c09": c09, "c10": c10, "c14": c14, "c15": c15}[src]
        for k in range(20):
            sc = mod.generate(seed + k, tier, idx)
            if sc.get("world", "roms") == "roms" and "grid" in sc:
                break
        sc.pop("plan", None)
    sc["origin"] = src
    return sc


def execute(sc) -> Result:
    res = Result()
    if os.environ.get("NUMBA_BOUNDSCHECK") != "1":
        res.harness_error = "NUMBA_BOUNDSCHECK is not set: run through ./check C17"
        return res
    sc = dict(sc)
    origin = sc.pop("origin", "?")
    i0, i1, j0, j1 = truth.subgrid(sc)
    xmin, xmax, ymin, ymax = float(i0), float(i1 - 1), float(j0), float(j1 - 1)
    vlo_x, vhi_x, vlo_y, vhi_y = truth.valid_region(sc)
    run = driver.run_scenario(sc, rng_seed=3)
    try:
        account_run(res, run, sc)
        res.history_key = "|".join(map(str, (origin, sc["grid"].get("subgrid"), sc["tracker"].get("advection"),
                                             truth.vert(sc)["N"]))) + "|" + abstract_history(run, sc)
        e = run.error
        if e is not None:
            if e.in_harness:
                raise RuntimeError(e.brief())
            if e.type == "IndexError":
                res.add(Violation("C17.index_error", e.step, f"{e.file}:{e.func}", e.trace, "every access inside the arrays",
                                  site=f"{e.file}:{e.func}"))
            else:
                res.aborted_foreign += 1
        clipped = 0
        both = 0
        near = 0
        for c in run.rec.velocity_calls:
            X, Y = c["X"], c["Y"]
            if not len(X):
                continue
            res.feed(X, Y)
            fin = np.isfinite(X) & np.isfinite(Y)
            bad = fin & ((X < xmin) | (X > xmax) | (Y < ymin) | (Y > ymax))
            if bad.any() or (~fin).any():
                q = int(np.nonzero(bad | ~fin)[0][0])
                res.add(Violation("C17.shadow_index", c["step"], f"forcing.velocity called at ({X[q]:.6f},{Y[q]:.6f}) frac={c['frac']}",
                                  "outside the loaded fields", f"[{xmin},{xmax}] x [{ymin},{ymax}]"))
                break
            if c["frac"] > 0:
                clipped += int(((X <= vlo_x) | (X >= vhi_x) | (Y <= vlo_y) | (Y >= vhi_y)).sum())
                both += int((((X <= vlo_x) | (X >= vhi_x)) & ((Y <= vlo_y) | (Y >= vhi_y))).sum())
            near += int(((X < vlo_x + 1) | (X > vhi_x - 1) | (Y < vlo_y + 1) | (Y > vhi_y - 1)).sum())
        if clipped:
            res.probes["rk_stage_clipped"] += 1
        if both:
            res.probes["rk_stage_clipped_in_both_directions"] += 1
        amps = sc["flow"].get("amp_u") or []
        if clipped and len(amps) > 1 and min(abs(a) for a in amps) < 0.05:
            res.probes["rk_stage_clipped_in_a_surging_current"] += 1
        if near:
            res.probes["near_border"] += 1
        res.nontrivial = bool(near or clipped)
        f = gen.features(sc)
        if "subgrid" in f:
            res.probes["subgrid"] += 1
        if "diffusion" in f:
            res.probes["diffusion"] += 1
        if truth.vert(sc)["N"] == 1:
            res.probes["single_level"] += 1
        h = truth.bathymetry(sc)
        if sc["release"].get("no_z"):
            res.probes["depthless_release"] += 1
        for r in sc["release"]["rows"]:
            if r["Z"] == 0.0:
                res.probes["surface"] += 1
                break
        for r in sc["release"]["rows"]:
            if abs(r["Z"] - float(h[int(round(r["Y"])), int(round(r["X"]))])) < 1e-5:
                res.probes["bottom"] += 1
                break
    finally:
        world.rm_dir(run.dir)
    return res


def warm_up() -> None:
    import numba

    @numba.njit
    def oob(a):
        return a[5]

    try:
        oob(np.zeros(3))
    except IndexError:
        pass
    else:
        raise RuntimeError("NUMBA_BOUNDSCHECK=1 is not in force: out-of-range access did not raise")
    from ladsim import runner

    for adv, seed in (("RK4", 11), ("RK2", 12), ("EF", 13)):
        sc = gen.gen_scenario(seed, gen.profile(nsteps=(2, 2), p_reversed=0, p_ibm=0, p_land=0, p_subgrid=0, p_temp=1.0))
        sc["tracker"] = {"advection": adv}
        run = driver.run_scenario(sc, probe_fracs=(0, 0.5))
        world.rm_dir(run.dir)
