"""C02 - particles feel the interpolated C-grid forcing at their own position."""

from __future__ import annotations

import copy

import numpy as np

from ladsim import driver, gen, refmodel, truth, world
from ladsim.oracles.common import Result, Violation, abstract_history, account_run, crash_violation
from ladsim.rng import stream

ID = "C02"
LEVEL = "exploration"
ANCHORS = ("ladim/ROMS.py", "ladim/sample.py")
RULE = ("seeded storage layouts (full grid or sub-rectangle incl. negative indices, float32 or packed int16, N = 1..8, "
        "variable bathymetry and stretching, Vtransform 1/2, land masks with islands and channels) and 10..60 particles "
        "per case at random positions incl. cell edges/corners and depths incl. above the top and below the bottom "
        "level; after every forcing.update the public forcing.velocity and forcing.variables are compared with a "
        "from-scratch interpolation of the ground-truth nodes, with the min/max of the eight surrounding nodes, and "
        "with the same world loaded through another legal subgrid. Non-trivial: >= 5 particles judged; distinct by "
        "(grid size, subgrid, mask, N, transform, storage, field kind)")
COMPONENTS = {"real": ["ROMS Grid (subgrid slices, masks, sdepth)", "ROMS Forcing (_read_velocity, z2s, sample3DUV, "
                       "force_particles)", "Model loop", "netCDF4 on tmpfs"],
              "stub": ["synthetic ocean files", "reference interpolation and independent s-coordinate formulas (oracle)"]}
ASSUMPTIONS = ["a particle within 1e-9 of a cell edge may take the level pair and scalars of either adjoining cell, "
               "but of one and the same cell",
               "positions outside the valid region (clipped RK stage positions) are not judged"]
TIERS = {"quick": dict(runs=800, budget_s=50, shrink=150),
         "thorough": dict(runs=60000, budget_s=900, shrink=250)}
REQUIRED_PROBES = ["subgrid", "packed", "land_face_touched", "above_top_level", "below_bottom_level",
                   "edge_position", "subgrid_pair_compared", "tie_position_judged"]

PROFILE = gen.profile(
    nsteps=(1, 4), p_reversed=0.15, grid_i=(8, 18), grid_j=(8, 16), p_land=0.7, p_islands=0.7, p_channel=0.3,
    p_bathy_var=0.7, N=(1, 8), p_subgrid=0.5, p_packed=0.4, spacing=(1, 4), p_multifile=0.3,
    flow_kinds=(("linear", 3), ("sinus", 3), ("const", 1), ("rot", 1)), p_levels=0.8, p_time_dependent=0.6,
    p_temp=0.7, rows=(10, 60), mult=((1, 1),), p_late_rows=0.2, p_rows_outside=0.0, p_continuous=0.0,
    p_ibm=0.0, schemes=(("EF", 3), ("RK4", 1)), cfl=(0.02, 0.3), p_numrec=0.1, p_dense=0.05, p_pvars=0.0,
    p_extra_time=0.0, p_extra_float=0.1, p_edge_positions=0.2, p_lonlat_out=0.0, period=(1, 3),
)


def generate(seed: int, tier: str, idx: int) -> dict:
    s = stream(seed, "c02")
    sc = gen.gen_scenario(seed, PROFILE)
    # a second legal subgrid for the paired run
    jm, im = truth.dims(sc)
    for _ in range(20):
        i0 = s.randint(1, max(1, im - 7))
        i1 = s.randint(min(i0 + 5, im - 1), im - 1)
        j0 = s.randint(1, max(1, jm - 7))
        j1 = s.randint(min(j0 + 5, jm - 1), jm - 1)
        if i1 - i0 >= 4 and j1 - j0 >= 4 and [i0, i1, j0, j1] != list(truth.subgrid(sc)):
            sc["plan"] = {"subgrid_b": [i0, i1, j0, j1]}
            break
    return sc


def judge_probes(res: Result, sc, ref, rec, tagp="C02"):
    steps = set(truth.frame_steps(sc))
    out = {}
    for pr in rec.probes:
        n = pr["step"]
        X, Y, Z = pr["X"], pr["Y"], pr["Z"]
        if len(X) == 0 or 0.0 not in pr["vel"]:
            continue
        U, V = pr["vel"][0.0]
        ok = ref.in_valid(X, Y) & ~ref.near_tie(X, Y)
        try:
            ur, vr, (ulo, uhi), (vlo, vhi) = ref.velocity(X, Y, Z, float(n), with_bounds=True)
        except ValueError:
            res.premise_left += 1
            continue
        sg = ref.sgn
        exact_time = n in steps
        # at a frame the field is the stored float32 frame itself: only interpolation rounding remains
        # (2e-6 leaves room for an implementation that interpolates in single precision)
        tol = (2e-6 if exact_time else 1e-4) * ref.scale() + 1e-14
        res.feed(U, V)
        klo, khi, a, near = ref.vertical(X, Y, Z)
        res.probes["above_top_level"] += int(((a == 0.0) & (khi == ref.N - 1) & ok).any())
        res.probes["below_bottom_level"] += int(((a == 1.0) & (klo == 0) & ok).any())
        okv = ok & ~near
        bad = okv & ((np.abs(U - ur) > tol) | (np.abs(V - vr) > tol) | ~np.isfinite(U) | ~np.isfinite(V))
        if bad.any():
            p = int(np.nonzero(bad)[0][0])
            # classify: does the horizontal part alone explain it?
            tag = f"{tagp}.vel"
            res.add(Violation(tag, n, f"particle {p} at ({X[p]:.4f},{Y[p]:.4f},{Z[p]:.3f})",
                              f"u,v=({U[p]:.9g},{V[p]:.9g})", f"({ur[p]:.9g},{vr[p]:.9g}) tol {tol:.2g}"))
        if exact_time:
            # convexity: within the range of the eight surrounding (masked) node values
            eps = 2e-6 * ref.scale() + 1e-14
            su, sv = sg * U, sg * V
            badb = okv & ((su < ulo - eps) | (su > uhi + eps) | (sv < vlo - eps) | (sv > vhi + eps))
            if badb.any():
                p = int(np.nonzero(badb)[0][0])
                res.add(Violation(f"{tagp}.vel.bounds", n, f"particle {p} at ({X[p]:.4f},{Y[p]:.4f},{Z[p]:.3f})",
                                  f"u,v=({su[p]:.9g},{sv[p]:.9g})",
                                  f"u in [{ulo[p]:.9g},{uhi[p]:.9g}] v in [{vlo[p]:.9g},{vhi[p]:.9g}]"))
        for name in truth.scalar_names(sc):
            if name not in pr["vars"] or len(pr["vars"][name]) != len(X):
                continue
            got = np.asarray(pr["vars"][name], dtype=float)
            lo, hi = ref.scalar_candidates(name, X, Y, Z, n)
            bads = ok & (np.abs(got - lo) > 1e-6) & (np.abs(got - hi) > 1e-6)
            if bads.any():
                p = int(np.nonzero(bads)[0][0])
                src = ref.scalar_any_frame(name, float(got[p])) if name != "w" else None
                res.add(Violation(f"{tagp}.scalar", n, f"{name} particle {p} at ({X[p]:.4f},{Y[p]:.4f},{Z[p]:.3f})",
                                  f"{got[p]:.8g} (frame,level,j,i)={src}", f"{lo[p]:.8g} or {hi[p]:.8g}"))
        # positions exactly on a cell edge or corner belong to two or four cells: the velocity and every scalar must
        # be those of ONE of them (level pair and weight from that cell's depth column, scalars from that cell)
        tie = ref.in_valid(X, Y) & ref.near_tie(X, Y) & np.isfinite(U) & np.isfinite(V)
        for p in np.nonzero(tie)[0][:40]:
            xs, ys, zs = X[p:p + 1], Y[p:p + 1], Z[p:p + 1]
            fits, tried = False, []
            for (jc, ic) in ref.tie_cells(float(X[p]), float(Y[p])):
                kl, kh, aa, nr = ref.vertical(xs, ys, zs, cells=(np.array([jc]), np.array([ic])))
                if nr[0]:
                    fits = True       # depth on an s-level of a candidate cell: bracket ambiguous as well
                    break
                uc, vc = ref.velocity(xs, ys, zs, float(n), vert=(kl, kh, aa))
                good = abs(U[p] - uc[0]) <= tol and abs(V[p] - vc[0]) <= tol
                vals = {}
                for name in truth.scalar_names(sc):
                    if name not in pr["vars"] or len(pr["vars"][name]) != len(X):
                        continue
                    F = truth.truth_scalar(sc, name, ref.latest_frame(n))
                    g_ = float(pr["vars"][name][p])
                    vals[name] = (g_, float(F[kl[0], jc, ic]), float(F[kh[0], jc, ic]))
                    good = good and (abs(g_ - F[kl[0], jc, ic]) <= 1e-6 or abs(g_ - F[kh[0], jc, ic]) <= 1e-6)
                tried.append(((jc, ic), (float(uc[0]), float(vc[0])), vals))
                if good:
                    fits = True
                    break
            res.probes["tie_position_judged"] += 1
            if not fits:
                res.add(Violation(f"{tagp}.tie", n, f"particle {p} on a cell edge at ({X[p]:.4f},{Y[p]:.4f},{Z[p]:.3f})",
                                  f"u,v=({U[p]:.9g},{V[p]:.9g}) " + str({k: pr['vars'][k][p] for k in truth.scalar_names(sc) if k in pr['vars']}),
                                  "velocity and scalars of one of the adjoining cells: " + str(tried)[:600]))
                break
        out[n] = (int(ok.sum()), pr)
    return out


def execute(sc) -> Result:
    res = Result()
    ref = refmodel.RefWorld(sc)
    run = driver.run_scenario(sc, probe_fracs=(0.0,))
    try:
        account_run(res, run, sc)
        g = sc["grid"]
        res.history_key = "|".join(map(str, (
            g["imax0"], g["jmax0"], g.get("subgrid"), hash(str(g.get("mask"))) % 9973, truth.vert(sc)["N"],
            truth.vert(sc)["Vtransform"], truth.vert(sc)["Vstretching"], sc["frames"].get("storage", "f4"),
            sc["flow"]["kind"], len(sc["release"]["rows"])))) + "|" + abstract_history(run, sc)
        v, foreign = crash_violation(ID, run, ANCHORS)
        if v is not None:
            res.add(v)
        if foreign:
            res.aborted_foreign += 1
        judged = judge_probes(res, sc, ref, run.rec)
        nj = max([k for k, _ in judged.values()], default=0)
        res.nontrivial = nj >= 5
        if g.get("subgrid"):
            res.probes["subgrid"] += 1
        if sc["frames"].get("storage") == "i2":
            res.probes["packed"] += 1
        # land faces / edges touched by some particle
        rows = sc["release"]["rows"]
        X = np.array([r["X"] for r in rows])
        Y = np.array([r["Y"] for r in rows])
        m = truth.mask_rho(sc)
        i0 = np.floor(X - 0.5).astype(int)
        j0 = np.floor(Y).astype(int)
        jm, im = m.shape
        touch = False
        for p in range(len(X)):
            for jj in (j0[p], min(j0[p] + 1, jm - 1)):
                for ii in (i0[p], i0[p] + 1):
                    if 0 <= ii < im - 1 and (m[jj, ii] == 0 or m[jj, ii + 1] == 0):
                        touch = True
        res.probes["land_face_touched"] += int(touch)
        res.probes["edge_position"] += int(bool(((np.abs(X - np.round(X)) == 0.5) | (X == np.round(X))).any()))
        # ---- paired run through another subgrid
        sgb = sc.get("plan", {}).get("subgrid_b")
        if sgb and run.error is None and 0 in judged:
            sc2 = copy.deepcopy(sc)
            sc2["grid"]["subgrid"] = sgb
            xlo, xhi, ylo, yhi = truth.valid_region(sc2)
            sc2["release"]["rows"] = [r for r in sc2["release"]["rows"]
                                      if xlo + 1e-6 < r["X"] < xhi - 1e-6 and ylo + 1e-6 < r["Y"] < yhi - 1e-6]
            if any(r["step"] == 0 for r in sc2["release"]["rows"]):
                run2 = driver.run_scenario(sc2, probe_fracs=(0.0,))
                try:
                    account_run(res, run2, sc2)
                    v2, foreign2 = crash_violation(ID, run2, ANCHORS)
                    if v2 is not None:
                        res.add(v2)
                    if run2.error is None:
                        a = run.rec.probes[0]
                        b = run2.rec.probes[0]
                        sa = run.rec.snap_by_step("forcing.post")[a["step"]]["vars"]["tag"]
                        sb = run2.rec.snap_by_step("forcing.post")[b["step"]]["vars"]["tag"]
                        ia = {int(t): k for k, t in enumerate(sa)}
                        ncmp = 0
                        for k2, t in enumerate(sb):
                            k1 = ia.get(int(t))
                            if k1 is None:
                                continue
                            if ref.near_tie(a["X"][k1:k1 + 1], a["Y"][k1:k1 + 1])[0]:
                                continue    # own cell ambiguous at a cell edge: not judged
                            ua, va = a["vel"][0.0][0][k1], a["vel"][0.0][1][k1]
                            ub, vb = b["vel"][0.0][0][k2], b["vel"][0.0][1][k2]
                            ncmp += 1
                            if ua != ub or va != vb:
                                res.add(Violation("C02.subgrid_dependence", a["step"], f"tag {int(t)}",
                                                  f"({ua:.17g},{va:.17g}) with subgrid {sc['grid'].get('subgrid')}",
                                                  f"({ub:.17g},{vb:.17g}) with subgrid {sgb}"))
                                break
                            for name in truth.scalar_names(sc):
                                if name in a["vars"] and name in b["vars"] and a["vars"][name][k1] != b["vars"][name][k2]:
                                    res.add(Violation("C02.subgrid_dependence", a["step"], f"{name} tag {int(t)}",
                                                      a["vars"][name][k1], b["vars"][name][k2]))
                        if ncmp:
                            res.probes["subgrid_pair_compared"] += 1
                finally:
                    world.rm_dir(run2.dir)
    finally:
        world.rm_dir(run.dir)
    return res
