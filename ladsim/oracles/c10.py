"""C10 - backward tracking = forward tracking in the time-mirrored, sign-flipped flow."""

from __future__ import annotations

import copy

import numpy as np

from ladsim import driver, gen, readback, refmodel, truth, world
from ladsim.oracles.common import Result, Violation, abstract_history, account_run, crash_violation
from ladsim.rng import stream

ID = "C10"
LEVEL = "exploration"
ANCHORS = ("ladim/timekeeper.py", "ladim/ROMS.py", "ladim/release.py", "ladim/out_netcdf.py")
RULE = ("pairs of runs of the real model: a time-reversed run from S back to E, and a forward run from S to 2S-E in the "
        "world whose forcing frames are mirrored about S with negated velocities and whose release times are "
        "mirrored; several forcing files, irregular frames (a share of them off the model time grid), several release times, discrete and continuous release, "
        "deaths, EF/RK2/RK4. Record k of both runs must hold the same pids at the same positions (1e-6 cells); the "
        "reversed run's clock must read S, S-dt, ... at every step, its output time coordinate S - k*period, and every "
        "release must happen at the model step of its stated time. Non-trivial: >= 2 records with particles compared "
        "and the flow is not symmetric in time; distinct by (frames, files, release times, scheme, abstract history)")
COMPONENTS = {"real": ["TimeKeeper (reversed)", "ROMS Forcing (reversed hand-over, sign flip)", "ParticleReleaser "
                       "(reversed window, order)", "Output (negative period)", "Tracker", "Model loop"],
              "stub": ["synthetic ocean files (and their mirrored twins)", "scripted IBM"]}
ASSUMPTIONS = ["scalar forcing carries frame-identifying values and is therefore left out of the pair comparison"]
TIERS = {"quick": dict(runs=500, budget_s=50, shrink=100),
         "thorough": dict(runs=40000, budget_s=900, shrink=200)}
REQUIRED_PROBES = ["multi_file", "several_release_times", "continuous", "rk", "death", "irregular_frames", "frames_off_grid"]

PROFILE = gen.profile(
    nsteps=(2, 30), p_reversed=1.0, p_land=0.4, p_subgrid=0.3, p_bathy_var=0.4, N=(1, 4), p_levels=0.5,
    spacing=(1, 8), p_irregular=0.6, p_multifile=0.7, cfl=(0.1, 0.7), p_time_dependent=1.0, p_temp=0.0,
    rows=(2, 8), p_late_rows=0.8, p_rows_outside=0.3, p_continuous=0.35, p_ibm=0.6, p_kills=0.6, p_lifetime=0.2,
    p_deact=0.2, schemes=(("EF", 2), ("RK2", 1), ("RK4", 2)), p_numrec=0.3, p_dense=0.1, p_f4=0.0, p_pvars=0.2,
    p_extra_time=0.0, p_lonlat_out=0.0, period=(1, 5), p_stop_extra=0.15, p_weight=0.0,
)


def generate(seed: int, tier: str, idx: int) -> dict:
    s = stream(seed, "c10")
    sc = gen.gen_scenario(seed, PROFILE)
    dt = truth.dt_s(sc)
    if s.chance(0.3) and dt >= 4:
        # forcing frames off the model time grid (e.g. hourly frames with a 40-minute step): the pair
        # relation must hold all the same.  One more frame in front keeps the window covered.
        fr = sc["frames"]
        fr["phase_s"] = dt // s.pick([2, 3, 4])
        fr["offsets"] = [fr["offsets"][0] - 1, *fr["offsets"]]
        for c in ("u", "v"):
            if sc["flow"].get("amp_" + c):
                sc["flow"]["amp_" + c] = [round(s.uniform(0.35, 1.0), 3), *sc["flow"]["amp_" + c]]
        if fr.get("split"):
            fr["split"][0] += 1
        fr["time_units"] = "epoch"
        fr.pop("time_units_per_file", None)
    return sc


def mirrored(sc) -> dict:
    """the forward twin of a reversed scenario"""
    b = copy.deepcopy(sc)
    b["time"].pop("reversed", None)
    offs = sc["frames"]["offsets"]
    n = len(offs)
    ph = int(sc["frames"].get("phase_s", 0))
    if ph:
        # the mirror image of start + o*dt + ph is start + (-o-1)*dt + (dt - ph)
        b["frames"]["offsets"] = [-o - 1 for o in reversed(offs)]
        b["frames"]["phase_s"] = truth.dt_s(sc) - ph
    else:
        b["frames"]["offsets"] = [-o for o in reversed(offs)]
    if sc["frames"].get("split"):
        b["frames"]["split"] = list(reversed(sc["frames"]["split"]))
    if sc["frames"].get("per_file"):
        b["frames"]["per_file"] = list(reversed(sc["frames"]["per_file"]))
    for c in ("u", "v"):
        amp = sc["flow"].get("amp_" + c) or [1.0] * n
        b["flow"]["amp_" + c] = [-a for a in reversed(amp)]
    return b


def records_by_index(d, sc):
    R = readback.Records(readback.list_output_files(d))
    return R


def execute(sc) -> Result:
    res = Result()
    assert sc["time"].get("reversed")
    dA, dB = world.new_dir(), world.new_dir()
    try:
        runA = driver.run_scenario(sc, dA)
        account_run(res, runA, sc)
        res.history_key = "|".join(map(str, (sc["frames"]["offsets"], sc["frames"].get("split"),
                                             sorted({r["step"] for r in sc["release"]["rows"]}),
                                             sc["tracker"].get("advection")))) + "|" + abstract_history(runA, sc)
        v, foreign = crash_violation(ID, runA, ANCHORS)
        if v is not None:
            res.add(v)
        if runA.error is not None:
            if foreign:
                res.aborted_foreign += 1
            return res
        # ---- the reversed run's own clock, time coordinate and release times
        S = truth.t_start(sc)
        dt = truth.dt_s(sc)
        for s in runA.rec.snaps_at("release.pre"):
            want = S - s["step"] * dt
            if s["time"] != want:
                res.add(Violation("C10.clock", s["step"], "timer.time", str(s["time"]), str(want)))
                break
        RA = records_by_index(dA, sc)
        p = sc["output"]["period"]
        for k, r in enumerate(RA.recs):
            want = S - k * p * dt
            if r["time"] != want:
                res.add(Violation("C10.time_coordinate", k * p, f"record {k}", str(r["time"]), str(want)))
                break
        sched = refmodel.release_schedule(sc)
        pre, post = runA.rec.snap_by_step("release.pre"), runA.rec.snap_by_step("release.post")
        for st in sorted(post):
            if st not in pre:
                continue
            new_tags = sorted(post[st]["vars"]["tag"][pre[st]["n"]:].tolist())
            want_tags = sorted(int(r["tag"]) for r in sched.get(st, []) for _ in range(int(r["mult"])))
            if new_tags != want_tags:
                res.add(Violation("C10.release_time", st, "rows released at this step (tags)", new_tags, want_tags))
                break
        # ---- the forward twin
        scB = mirrored(sc)
        runB = driver.run_scenario(scB, dB)
        account_run(res, runB, scB)
        if runB.error is not None:
            res.aborted_foreign += 1
            return res
        RB = records_by_index(dB, scB)
        if len(RA.recs) != len(RB.recs):
            res.add(Violation("C10.members", None, "number of records", len(RA.recs), len(RB.recs)))
        ncmp = 0
        for k, (a, b) in enumerate(zip(RA.recs, RB.recs)):
            for key in sorted(a["data"]):
                res.feed(a["data"][key])
            if a["layout"] == "sparse":
                pa, pb = np.asarray(a["data"]["pid"]).astype(int), np.asarray(b["data"]["pid"]).astype(int)
                ia = ib = slice(None)
            else:
                pa, pb = readback.dense_members(a), readback.dense_members(b)
                ia, ib = pa, pb
            if not np.array_equal(pa, pb):
                res.add(Violation("C10.members", k * p, f"record {k} pids", pa, f"{pb} (forward twin)"))
                break
            if len(pa):
                ncmp += 1
            for name in ("X", "Y", "Z", "age"):
                if name not in a["data"] or name not in b["data"]:
                    continue
                x = np.asarray(a["data"][name], dtype=float)[ia]
                y = np.asarray(b["data"][name], dtype=float)[ib]
                bad = np.abs(x - y) > 1e-6 * np.maximum(1.0, np.abs(y))
                if bad.any():
                    q = int(np.nonzero(bad)[0][0])
                    res.add(Violation("C10.position", k * p, f"record {k} {name} of pid {pa[q]}", x[q],
                                      f"{y[q]} (forward twin)"))
                    break
        f = gen.features(sc)
        res.nontrivial = ncmp >= 2
        for name, feat in (("multi_file", "multi_file"), ("several_release_times", "several_release_times"),
                           ("continuous", "continuous"), ("irregular_frames", "irregular_frames")):
            if feat in f and ncmp:
                res.probes[name] += 1
        if ("rk2" in f or "rk4" in f) and ncmp:
            res.probes["rk"] += 1
        if sc["frames"].get("phase_s") and ncmp:
            res.probes["frames_off_grid"] += 1
        if "death_ibm" in f and ncmp:
            res.probes["death"] += 1
    finally:
        world.rm_dir(dA)
        world.rm_dir(dB)
    return res
