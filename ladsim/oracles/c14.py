"""C14 - particles are independent; runs are reproducible and time-shift invariant."""

from __future__ import annotations

import copy

import numpy as np

from ladsim import driver, gen, readback, truth, world
from ladsim.oracles.common import Result, Violation, abstract_history, account_run, crash_violation
from ladsim.rng import stream

ID = "C14"
LEVEL = "exploration"
ANCHORS = ("ladim/model.py", "ladim/state.py", "ladim/tracker.py")
RULE = ("families of related runs of the real model, diffusion off: a base scenario (depth-dependent currents, land, "
        "deaths by IBM and by leaving the grid placed around output steps, late releases, scalar forcing, IBM state, "
        "both layouts, EF/RK2/RK4) and its relatives: random subset of the release rows, permutation of rows within a "
        "release time, a changed kill script for *other* particles, every time shifted by k whole steps, plain "
        "repetition. Trajectories are matched by (release-row tag, release step, ordinal) and must be bit-for-bit "
        "equal (f8 output) between base and subset/permutation/other-deaths relatives and the repetition; the "
        "shifted relative is compared with rtol 1e-12. Non-trivial: >= 1 particle compared over >= 2 records in a "
        "family where a particle died before a later step; distinct by (relatives, abstract history)")
COMPONENTS = {"real": ["Model.update ordering", "State.compactify", "ROMS Forcing per-particle caches", "Tracker masks",
                       "Output", "Release"],
              "stub": ["synthetic ocean files", "scripted IBM"]}
ASSUMPTIONS = ["release rows of the same time carry different tags; copies of one row (mult > 1) are identical anyway",
               "repetition in a fresh interpreter under another PYTHONHASHSEED is exercised by the determinism self-test"]
TIERS = {"quick": dict(runs=400, budget_s=55, shrink=120),
         "thorough": dict(runs=30000, budget_s=900, shrink=250)}
REQUIRED_PROBES = ["subset", "permutation", "other_death", "shift", "repeat", "death_then_output_step",
                   "depth_dependent_flow", "vertical_advection"]

PROFILE = gen.profile(
    nsteps=(4, 30), p_reversed=0.15, p_land=0.5, p_subgrid=0.3, p_bathy_var=0.6, N=(2, 6), p_levels=0.9,
    flow_kinds=(("linear", 2), ("sinus", 3), ("const", 1)), cfl=(0.1, 0.7), p_time_dependent=0.8, p_temp=0.7,
    rows=(4, 12), mult=((1, 5), (2, 1)), p_late_rows=0.8, p_rows_outside=0.1, p_continuous=0.2, p_ibm=1.0,
    p_kills=1.0, p_lifetime=0.2, p_deact=0.2, p_weight=0.5, schemes=(("EF", 2), ("RK2", 1), ("RK4", 2)),
    p_w=0.3, p_numrec=0.3, p_dense=0.2, p_f4=0.0, p_pvars=0.3, p_extra_time=0.0, p_lonlat_out=0.3, period=(1, 4),
    p_stop_extra=0.1,
)


def generate(seed: int, tier: str, idx: int) -> dict:
    s = stream(seed, "c14")
    sc = gen.gen_scenario(seed, PROFILE)
    rows = sc["release"]["rows"]
    tags = [r["tag"] for r in rows]
    n = sc["time"]["nsteps"]
    p = sc["output"]["period"]
    # deaths just before and just after output steps
    kills = sc["ibm"].setdefault("kills", {})
    for _ in range(s.randint(1, 3)):
        k = s.randint(0, max(0, (n - 1) // p)) * p + s.pick([-1, 0, -1, 1])
        k = min(max(k, 0), n - 1)
        kills.setdefault(str(k), [])
        t = s.pick(tags)
        if t not in kills[str(k)]:
            kills[str(k)].append(t)
    plan: dict = {}
    keep = [t for t in tags if s.chance(0.6)]
    if not keep:
        keep = [s.pick(tags)]
    plan["subset"] = sorted(keep)
    plan["perm_seed"] = s.randint(0, 10**6)
    # other deaths: change the fate of a few tags, compare the rest
    changed = s.sample(tags, max(1, len(tags) // 3))
    newk: dict = {}
    for t in changed:
        if s.chance(0.7):
            newk.setdefault(str(s.randint(0, n - 1)), []).append(t)
    plan["other"] = {"changed": sorted(changed), "kills": newk}
    plan["shift"] = s.pick([1, 2, 3, 7, 100, -1, -5])
    sc["plan"] = plan
    return sc


def trajectories(sc, d, rec) -> dict:
    """(tag, release step, ordinal) -> {record step: {var: value}} from the f8 output of a run"""
    R = readback.Records(readback.list_output_files(d))
    # birth step and ordinal of every pid from the release snapshots
    key_of: dict[int, tuple] = {}
    pre, post = rec.snap_by_step("release.pre"), rec.snap_by_step("release.post")
    for st in sorted(post):
        if st not in pre:
            continue
        a, b = pre[st], post[st]
        new = b["vars"]["pid"][a["n"]:]
        tags = b["vars"]["tag"][a["n"]:]
        count: dict[int, int] = {}
        for p, t in zip(new.tolist(), tags.tolist()):
            o = count.get(t, 0)
            count[t] = o + 1
            key_of[int(p)] = (int(t), st, o)
    traj: dict = {}
    dt = truth.dt_s(sc)
    for r in R.recs:
        st = int(truth.sgn(sc) * (r["time"] - truth.t_start(sc)) / np.timedelta64(1, "s")) // dt
        if r["layout"] == "sparse":
            pids = np.asarray(r["data"]["pid"]).astype(int)
            idx = range(len(pids))
        else:
            pids = readback.dense_members(r)
            idx = pids
        for k, p in zip(idx, pids.tolist()):
            key = key_of.get(int(p))
            if key is None:
                continue
            traj.setdefault(key, {})[st] = {v: np.asarray(r["data"][v])[k] for v in r["data"] if v != "pid"}
    return traj


def compare(res: Result, tag: str, base: dict, other: dict, keys, rtol: float = 0.0, what: str = "") -> int:
    ncmp = 0
    for key in keys:
        if key not in base or key not in other:
            continue
        a, b = base[key], other[key]
        if set(a) != set(b):
            res.add(Violation(tag, None, f"particle (tag, release step, ordinal)={key} {what}",
                              f"present at record steps {sorted(b)}", f"{sorted(a)}"))
            continue
        if len(a) >= 2:
            ncmp += 1
        for st in sorted(a):
            for v in a[st]:
                x, y = a[st][v], b[st].get(v)
                if y is None:
                    continue
                if rtol:
                    same = (np.isnan(x) and np.isnan(y)) if isinstance(x, float) and np.isnan(x) else \
                        abs(float(x) - float(y)) <= rtol * max(1.0, abs(float(x)))
                else:
                    same = (x == y) or (x != x and y != y)
                if not same:
                    res.add(Violation(tag, st, f"particle (tag, release step, ordinal)={key} {v} {what}",
                                      f"{float(y):.17g}", f"{float(x):.17g}"))
                    return ncmp
    return ncmp


def run_one(res: Result, sc, want_rec=True):
    d = world.new_dir()
    run = driver.run_scenario(sc, d)
    account_run(res, run, sc)
    if run.error is not None:
        v, foreign = crash_violation(ID, run, ANCHORS)
        if v is not None:
            res.add(v)
        elif foreign:
            res.aborted_foreign += 1
        world.rm_dir(d)
        return None, None, run
    traj = trajectories(sc, d, run.rec)
    world.rm_dir(d)
    return traj, run.rec, run


def execute(sc) -> Result:
    res = Result()
    sc = copy.deepcopy(sc)
    plan = sc.pop("plan")
    base, rec, run = run_one(res, sc)
    res.history_key = repr((sorted(plan["subset"]), plan["shift"])) + "|" + abstract_history(run, sc)
    if base is None:
        return res
    for key in sorted(base):
        for st in sorted(base[key]):
            res.feed(*[np.asarray(base[key][st][v]) for v in sorted(base[key][st])])
    tags = [r["tag"] for r in sc["release"]["rows"]]
    total = 0
    # probes about the base history
    p = sc["output"]["period"]
    ipre, ipost = rec.snap_by_step("ibm.pre"), rec.snap_by_step("ibm.post")
    tpre, tpost = rec.snap_by_step("tracker.pre"), rec.snap_by_step("tracker.post")
    death_steps = [st for st in ipost if st in ipre and ipre[st]["vars"]["alive"].sum() > ipost[st]["vars"]["alive"].sum()]
    death_steps += [st for st in tpost if st in tpre and tpre[st]["vars"]["alive"].sum() > tpost[st]["vars"]["alive"].sum()]
    survivors_after = any(ipost[st]["vars"]["alive"].any() for st in death_steps if st in ipost)
    if any((st + 1) % p == 0 for st in death_steps) and survivors_after:
        res.probes["death_then_output_step"] += 1
    if sc["flow"].get("levels"):
        res.probes["depth_dependent_flow"] += 1
    if sc["tracker"].get("vertical_advection"):
        res.probes["vertical_advection"] += 1

    # ---- repetition
    again, _, _ = run_one(res, sc)
    if again is not None:
        total += compare(res, "C14.repeat", base, again, sorted(base), what="(same run repeated)")
        res.probes["repeat"] += 1
    # ---- subset
    s2 = copy.deepcopy(sc)
    s2["release"]["rows"] = [r for r in s2["release"]["rows"] if r["tag"] in plan["subset"]]
    n = sc["time"]["nsteps"]
    if len(s2["release"]["rows"]) < len(sc["release"]["rows"]) and \
            any(0 <= r["step"] < n and r["mult"] > 0 for r in s2["release"]["rows"]) and not sc["release"].get("continuous"):
        other, _, _ = run_one(res, s2)
        if other is not None:
            keys = [k for k in base if k[0] in plan["subset"]]
            total += compare(res, "C14.subset", base, other, keys, what=f"(other rows removed, kept {plan['subset']})")
            res.probes["subset"] += 1
    # ---- permutation within a release time
    s3 = copy.deepcopy(sc)
    ps = stream(plan["perm_seed"], "perm")
    rows = s3["release"]["rows"]
    by_step: dict = {}
    for r in rows:
        by_step.setdefault(r["step"], []).append(r)
    if any(len(v) > 1 for v in by_step.values()):
        newrows = []
        for st in sorted(by_step):
            grp = by_step[st]
            ps.shuffle(grp)
            newrows += grp
        s3["release"]["rows"] = newrows
        other, _, _ = run_one(res, s3)
        if other is not None:
            total += compare(res, "C14.permutation", base, other, sorted(base), what="(rows of a release time permuted)")
            res.probes["permutation"] += 1
    # ---- other particles die differently
    s4 = copy.deepcopy(sc)
    ch = set(plan["other"]["changed"])
    kills = {k: [t for t in v if t not in ch] for k, v in s4["ibm"].get("kills", {}).items()}
    for k, v in plan["other"]["kills"].items():
        kills.setdefault(k, [])
        kills[k] += [t for t in v if t not in kills[k]]
    s4["ibm"]["kills"] = {k: v for k, v in kills.items() if v}
    if s4["ibm"]["kills"] != sc["ibm"].get("kills", {}):
        other, _, _ = run_one(res, s4)
        if other is not None:
            keys = [k for k in base if k[0] not in ch]
            total += compare(res, "C14.other_death", base, other, keys,
                             what=f"(only the fate of tags {sorted(ch)} was changed)")
            res.probes["other_death"] += 1
    # ---- everything shifted by whole steps
    s5 = copy.deepcopy(sc)
    s5["time"]["start"] = str(truth.t_start(sc) + plan["shift"] * truth.dt_s(sc))
    other, _, _ = run_one(res, s5)
    if other is not None:
        total += compare(res, "C14.shift", base, other, sorted(base), rtol=1e-12,
                         what=f"(all times shifted by {plan['shift']} steps)")
        res.probes["shift"] += 1
    res.nontrivial = total >= 1 and bool(death_steps)
    return res
