"""Shared pieces of the per-property oracles."""

from __future__ import annotations

import hashlib
import json
from collections import Counter

import numpy as np


class Violation:
    def __init__(self, tag: str, step=None, subject: str = "", observed="", expected="",
                 site: str = "") -> None:
        self.tag = tag
        self.step = step
        self.subject = str(subject)
        self.observed = _short(observed)
        self.expected = _short(expected)
        self.site = site      # call site for crashes: file:func

    def to_json(self) -> dict:
        return {"tag": self.tag, "step": self.step, "subject": self.subject,
                "observed": self.observed, "expected": self.expected, "site": self.site}

    def key(self) -> tuple:
        return (self.tag, self.step, self.subject)

    def __repr__(self) -> str:
        return f"<{self.tag} step={self.step} {self.subject}: {self.observed} != {self.expected}>"


def _short(x, n: int = 240) -> str:
    if isinstance(x, np.ndarray):
        x = np.array2string(x, precision=9, threshold=12)
    s = str(x)
    return s if len(s) <= n else s[: n - 3] + "..."


class Result:
    """What one simulated case (possibly several LADiM executions) produced"""

    def __init__(self) -> None:
        self.violations: list[Violation] = []
        self.nontrivial = False
        self.history_key = ""          # abstract history (string) for distinctness
        self.probes: Counter = Counter()
        self.faults: Counter = Counter()
        self.model_steps = 0
        self.model_time_s = 0
        self.particle_steps = 0
        self.executions = 0
        self.aborted_foreign = 0       # runs ended by an exception outside the property's anchors
        self.premise_left = 0
        self.digest = hashlib.blake2b(digest_size=16)
        self.harness_error: str | None = None
        self.notes: list[str] = []

    def add(self, v: Violation) -> None:
        if len(self.violations) < 40:
            self.violations.append(v)

    def feed(self, *arrays) -> None:
        """mix observed data into the history digest (replay must reproduce it)"""
        for a in arrays:
            if isinstance(a, np.ndarray) and a.dtype == object:
                self.digest.update(repr([str(x) for x in a.tolist()]).encode())
            elif isinstance(a, np.ndarray):
                self.digest.update(str(a.dtype).encode())
                self.digest.update(np.ascontiguousarray(a).tobytes())
            else:
                self.digest.update(repr(a).encode())

    def feed_run(self, run) -> None:
        """digest of everything a run's recorder saw"""
        rec = run.rec
        self.executions += 1
        if rec is None:
            return
        for c in rec.calls:
            self.digest.update(repr(c).encode())
        for s in rec.snaps:
            self.digest.update(s["label"].encode())
            for k in sorted(s["vars"]):
                self.feed(s["vars"][k])
        if run.error is not None:
            self.digest.update(run.error.brief().encode())

    def hexdigest(self) -> str:
        return self.digest.hexdigest()

    def to_json(self) -> dict:
        return {
            "violations": [v.to_json() for v in self.violations],
            "nontrivial": self.nontrivial, "history_key": self.history_key,
            "probes": dict(self.probes), "faults": dict(self.faults),
            "model_steps": self.model_steps, "model_time_s": self.model_time_s,
            "particle_steps": self.particle_steps, "executions": self.executions,
            "aborted_foreign": self.aborted_foreign, "premise_left": self.premise_left,
            "digest": self.hexdigest(), "harness_error": self.harness_error,
            "notes": self.notes[:5],
        }


def abstract_history(run, sc=None) -> str:
    """per step: (released, died in tracker, died in ibm, record written, compactified)"""
    rec = run.rec
    if rec is None:
        return "norec"
    pre = rec.snap_by_step("release.pre")
    post = rec.snap_by_step("release.post")
    tpre = rec.snap_by_step("tracker.pre")
    tpost = rec.snap_by_step("tracker.post")
    ipost = rec.snap_by_step("ibm.post")
    period = int(sc["output"]["period"]) if sc is not None and "output" in sc else 1
    writes = {c[2] for c in rec.calls if c[0] == "output" and c[1] == "update" and c[2] >= 0 and c[2] % period == 0}
    items = []
    for st in sorted(post):
        rel = post[st]["n"] - pre[st]["n"] if st in pre else 0
        dt_ = 0
        di = 0
        if st in tpre and st in tpost:
            dt_ = int(tpre[st]["vars"]["alive"].sum() - tpost[st]["vars"]["alive"].sum())
        if st in tpost and st in ipost:
            di = int(tpost[st]["vars"]["alive"].sum() - ipost[st]["vars"]["alive"].sum())
        items.append((min(rel, 3), min(dt_, 2), min(di, 2), int(st in writes)))
    err = run.error.tag() if run.error else ""
    return hashlib.blake2b(json.dumps([items, err]).encode(), digest_size=8).hexdigest()


def account_run(res: Result, run, sc) -> None:
    """bookkeeping common to all oracles"""
    from ladsim import truth

    res.feed_run(run)
    if run.error is not None:
        e = run.error
        res.notes.append(f"{e.type}@{e.file}:{e.func} phase={e.phase}")
    res.model_steps += run.steps_done
    res.model_time_s += run.steps_done * truth.dt_s(sc)
    rec = run.rec
    if rec is not None:
        for s in rec.snaps_at("tracker.pre"):
            res.particle_steps += s["n"]


def crash_violation(prop: str, run, anchors=(), promises_completion: bool = False):
    """DESIGN section 5 rule 5: attribute an exception of the code under test.

    Returns (Violation | None, foreign: bool)."""
    e = run.error
    if e is None:
        return None, False
    if e.in_harness:
        raise RuntimeError("harness error: " + e.brief())
    anchored = e.file is not None and any(e.file.endswith(a) for a in anchors)
    if promises_completion or anchored:
        return Violation(f"{prop}.{e.tag()}", e.step, f"{e.phase}", e.trace,
                         "run completes", site=f"{e.file}:{e.func}"), False
    return None, True
