"""C20 - impossible set-ups are refused before the simulation starts (fault enumeration)."""

from __future__ import annotations

import copy
import os
from pathlib import Path

import numpy as np

from ladsim import driver, gen, readback, truth, world
from ladsim.oracles.common import Result, Violation, account_run
from ladsim.rng import stream

ID = "C20"
LEVEL = "fault_enumeration"
RULE = ("fault catalogue x valid base scenarios (forward/reversed, single/multi-file forcing, discrete/continuous "
        "release): forcing_starts_late, forcing_ends_early, frames_out_of_order (files renamed), "
        "frame_duplicated_across_files, forcing_file_missing, grid_file_missing, no_start, no_stop, no_dt, "
        "stop_wrong_side, direction_flag_wrong, release_all_before, release_all_at_or_after_stop, "
        "release_without_position, release_file_missing, config_file_missing, section_missing(time|forcing|tracker|"
        "release|output), subgrid_illegal, bad_period, frames_unsorted_in_file, frame_time_repeated_in_file; each kind has an applicability predicate and an effect proof "
        "computed on the scenario (the fault really makes the set-up impossible). Quick: one seeded kind per base "
        "plus 20 % combinations of 2-3; thorough: every kind on every base, then combinations. Oracle: configure() "
        "or Model() raises (any exception type) and no output record exists afterwards; the unfaulted base must "
        "start (control). Non-trivial: a fault was applied and proven effective; distinct by (fault kinds, base "
        "direction / files / release mode)")
COMPONENTS = {"real": ["configure", "Model.__init__ (all module constructors)", "TimeKeeper checks", "scan_file_times / "
                       "forcing_steps", "ParticleReleaser filters", "Grid subgrid check"],
              "stub": ["synthetic ocean files, damaged by the fault injector", "scripted IBM"]}
ASSUMPTIONS = ["any exception type or exit code during configure()/Model() counts as refusal",
               "an output file without records may exist after a refusal"]
TIERS = {"quick": dict(runs=700, budget_s=45, shrink=100),
         "thorough": dict(runs=22 * 2000 + 20000, budget_s=900, shrink=200)}
KINDS = ["forcing_starts_late", "forcing_ends_early", "frames_out_of_order", "frame_duplicated_across_files",
         "forcing_file_missing", "grid_file_missing", "no_start", "no_stop", "no_dt", "stop_wrong_side",
         "direction_flag_wrong", "release_all_before", "release_all_at_or_after_stop", "release_without_position",
         "release_file_missing", "config_file_missing", "section_missing", "subgrid_illegal", "bad_period",
         "frames_unsorted_in_file", "frame_time_repeated_in_file"]
REQUIRED_PROBES = ["applied:" + k for k in KINDS] + ["control_started", "combination", "ends_inside_fraction",
                                                   "short_by_less_than_a_step_start_side", "short_by_less_than_a_step_stop_side",
                                                   "release_a_fraction_of_a_step_before_start"]

PROFILE = gen.profile(
    nsteps=(2, 24), p_reversed=0.35, p_land=0.3, p_subgrid=0.3, rows=(1, 6), p_late_rows=0.6, p_rows_outside=0.3,
    p_continuous=0.35, p_ibm=0.3, cfl=(0.02, 0.4), N=(1, 3), p_multifile=0.65, spacing=(1, 6), p_numrec=0.3,
    p_dense=0.1, p_temp=0.3, p_pvars=0.2, p_extra_time=0.0, p_lonlat_out=0.0, p_stop_extra=0.2, period=(1, 4),
)


def generate(seed: int, tier: str, idx: int) -> dict:
    s = stream(seed, "c20")
    if tier == "thorough" and idx % 22 != 21 and idx < 22 * 2000:
        idx = idx - idx // 22        # 21 of every 22 cases walk the kinds x bases table, the 22nd is a combination
        # every kind on every base: base b = idx // 19 shares its seed across the 19 kinds
        from ladsim.rng import derive

        b = idx // 21
        sc = gen.gen_scenario(derive(int(os.environ.get("VERIF_SEED", "1")), "C20base", b), PROFILE)
        kinds = [KINDS[idx % 21]]
    else:
        sc = gen.gen_scenario(seed, PROFILE)
        if s.chance(0.2) or tier == "thorough":
            kinds = s.sample(KINDS, s.randint(2, 3))
        else:
            kinds = [s.pick(KINDS)]
    if "forcing_ends_early" in kinds and s.chance(0.5):
        # a base in which the forcing can end exactly at the last whole step before an off-grid stop time
        sc = gen.gen_scenario(seed, dict(PROFILE, p_stop_extra=1.0, p_spacing_one=1.0, p_irregular=0.0, p_reversed=0.0))
    faults = []
    for k in kinds:
        f = {"kind": k, "r": round(s.random(), 4)}
        if k == "section_missing":
            f["section"] = s.pick(["time", "forcing", "tracker", "release", "output"])
        if k == "bad_period":
            f["value"] = s.pick(["PT", "PT5X", "five", [5, "furlongs"], [5]])
            f["where"] = s.pick(["dt", "period"])
        if k == "subgrid_illegal":
            f["variant"] = s.pick(["i0_zero", "i1_too_big", "i_reversed", "j0_zero", "j1_too_big", "j_reversed", "i_empty",
                                   "i1_neg_beyond", "j1_neg_beyond", "i0_neg_beyond"])
        if k == "release_without_position":
            f["variant"] = s.pick(["no_xy", "only_x", "only_lon"])
        faults.append(f)
    sc["plan"] = {"faults": faults}
    return sc


def features(sc) -> set[str]:
    f = gen.features(sc)
    for ft in sc["plan"]["faults"]:
        f.add("fault:" + ft["kind"])
    return f


def reductions(sc):
    fs = sc["plan"]["faults"]
    if len(fs) > 1:
        for i in range(len(fs)):
            c = copy.deepcopy(sc)
            del c["plan"]["faults"][i]
            yield f"fault:drop{i}", c


# ----------------------------------------------------------------------------
# the fault injector
# ----------------------------------------------------------------------------


class Applied:
    def __init__(self) -> None:
        self.kinds: list[str] = []
        self.cfg_edits = []
        self.file_ops = []
        self.release_columns = None
        self.no_config = False
        self.dup_frames = None
        self.inner = None
        self.notes: list[str] = []


def window(sc):
    T = sc["time"]
    n = T["nsteps"] + (1 if T.get("stop_extra") else 0)
    return (-n, 0) if T.get("reversed") else (0, n)


def apply_faults(sc):
    """returns (faulted scenario, Applied); kinds that are not applicable to this base are skipped"""
    s2 = copy.deepcopy(sc)
    ap = Applied()
    lo, hi = window(sc)
    # frame removals first, then the faults that refer to the resulting files
    order = {"forcing_starts_late": 0, "forcing_ends_early": 1}
    requested = {f["kind"] for f in sc["plan"]["faults"]}
    for f in sorted(sc["plan"]["faults"], key=lambda f: order.get(f["kind"], 5)):
        k = f["kind"]
        if k == "direction_flag_wrong" and "stop_wrong_side" in requested:
            # the two together describe a consistent run in the other direction (which is legal whenever the
            # forcing happens to cover it): the pair is not an impossible set-up, so only one of them is applied
            ap.notes.append("direction_flag_wrong skipped: cancels stop_wrong_side")
            continue
        fr = s2["frames"]
        offs = fr["offsets"]
        T0 = sc["time"]
        dt0 = int(T0["dt"])
        if (k in ("forcing_starts_late", "forcing_ends_early") and f["r"] > 0.55 and dt0 > 1 and "phase_s" not in fr
                and "forcing_starts_late" not in ap.kinds and "forcing_ends_early" not in ap.kinds):
            # the forcing falls short by less than one time step: every frame sits a few seconds off the step grid
            # and the outermost frame on this side is the one that used to lie exactly on the end of the window
            early_side = k == "forcing_starts_late"                    # calendar-early end of the window
            start_side = early_side != bool(T0.get("reversed"))         # ... which is the model's start or its stop
            edge = lo if early_side else hi
            if edge in offs and (start_side or not T0.get("stop_extra")):
                keep = [i for i, o in enumerate(offs) if (o >= edge if early_side else o <= edge)]
                _keep_frames(s2, keep)
                delta = 1 + int(f["r"] * 1000) % (dt0 - 1)
                s2["frames"]["phase_s"] = delta if early_side else -delta
                ft = truth.frame_times(s2)
                w0, w1 = sorted([truth.t_start(s2), truth.t_stop(s2)])
                assert (ft[0] > w0) if early_side else (ft[-1] < w1)     # effect proof
                ap.kinds.append(k)
                ap.notes.append("short_by_less_than_a_step" + ("_start_side" if start_side else "_stop_side"))
                continue
        if k == "forcing_starts_late":
            keep = [i for i, o in enumerate(offs) if o > lo]
            if len(keep) >= 1 and len(keep) < len(offs):
                _keep_frames(s2, keep)
                assert s2["frames"]["offsets"][0] > lo          # effect proof
                ap.kinds.append(k)
        elif k == "forcing_ends_early":
            T = sc["time"]
            # remove every frame at or beyond the calendar end of what the model needs
            # (forward: the last simulated time; reversed: the start time)
            top = 0 if T.get("reversed") else T["nsteps"]
            if not T.get("reversed") and T.get("stop_extra") and T["nsteps"] in offs and f["r"] < 0.6 and "phase_s" not in fr:
                # the forcing ends at the last whole step, inside the left-over fraction before the stop time:
                # the window [start, stop] is still not covered
                top = T["nsteps"] + 1
                ap.notes.append("ends_inside_fraction")
            keep = [i for i, o in enumerate(offs) if o < top]
            if len(keep) >= 1 and len(keep) < len(offs):
                _keep_frames(s2, keep)
                assert s2["frames"]["offsets"][-1] < top        # effect proof
                assert truth.frame_times(s2)[-1] < max(truth.t_start(s2), truth.t_stop(s2))
                ap.kinds.append(k)
        elif k == "frames_out_of_order":
            names = world.forcing_file_names(s2)
            if len(names) >= 2 and not s2["frames"].get("names"):
                i = int(f["r"] * (len(names) - 1))
                names[i], names[i + 1] = names[i + 1], names[i]
                s2["frames"]["names"] = names            # glob order no longer is time order
                ap.kinds.append(k)
        elif k == "frame_duplicated_across_files":
            part = world.frame_partition(s2)
            if len(part) >= 2 and ap.dup_frames is None:
                i = int(f["r"] * (len(part) - 1))
                ap.dup_frames = (i + 1, part[i][-1])         # file i+1 starts with a copy of the last frame of file i
                ap.kinds.append(k)
        elif k in ("frames_unsorted_in_file", "frame_time_repeated_in_file"):
            part = world.frame_partition(s2)
            big = [i for i, pp in enumerate(part) if len(pp) >= 2]
            if big and ap.inner is None:
                fi = big[int(f["r"] * len(big)) % len(big)]
                frames = list(part[fi])
                j = int(f["r"] * 1000) % (len(frames) - 1)
                if k == "frames_unsorted_in_file":
                    frames[j], frames[j + 1] = frames[j + 1], frames[j]      # two neighbouring frames swapped
                else:
                    frames[j + 1] = frames[j]                                 # the same time (and data) twice
                ap.inner = (fi, frames)
                ap.kinds.append(k)
        elif k == "forcing_file_missing":
            ap.file_ops.append(("delete_forcing", None))
            ap.kinds.append(k)
        elif k == "grid_file_missing":
            ap.cfg_edits.append(lambda cfg: cfg["grid"].__setitem__("filename", str(Path(cfg["grid"]["filename"]).with_name("no_such_grid.nc"))))
            ap.kinds.append(k)
        elif k in ("no_start", "no_stop", "no_dt"):
            key = k[3:]
            ap.cfg_edits.append(lambda cfg, key=key: cfg["time"].pop(key, None))
            ap.kinds.append(k)
        elif k == "stop_wrong_side":
            def edit(cfg, sc=sc):
                t0, t1 = truth.t_start(sc), truth.t_stop(sc)
                cfg["time"]["stop"] = str(t0 - (t1 - t0))
            ap.cfg_edits.append(edit)
            ap.kinds.append(k)
        elif k == "direction_flag_wrong":
            def edit(cfg):
                if cfg["time"].get("time_reversal"):
                    cfg["time"].pop("time_reversal")
                else:
                    cfg["time"]["time_reversal"] = True
            ap.cfg_edits.append(edit)
            ap.kinds.append(k)
        elif k == "release_all_before":
            if not s2["release"].get("continuous"):
                dt0 = int(sc["time"]["dt"])
                if f["r"] > 0.6 and dt0 > 1:
                    # the release clock is out of step with the model clock: everything is released less than one
                    # time step before the start
                    delta = 1 + int(f["r"] * 997) % (dt0 - 1)
                    for r in s2["release"]["rows"]:
                        r["step"] = 0
                        r["off_s"] = -delta
                    ap.notes.append("release_a_fraction_of_a_step_before_start")
                else:
                    for r in s2["release"]["rows"]:
                        r["step"] = -1 - abs(int(r["step"])) % 3
                s2["release"]["rows"].sort(key=lambda r: r["step"])
                ap.kinds.append(k)
        elif k == "release_all_at_or_after_stop":
            T = sc["time"]
            first = T["nsteps"] + (1 if T.get("stop_extra") else 0)
            for j, r in enumerate(s2["release"]["rows"]):
                r["step"] = first + (j % 2 if f["r"] < 0.5 else 0)
            s2["release"]["rows"].sort(key=lambda r: r["step"])
            ap.kinds.append(k)
        elif k == "release_without_position":
            cols = [c for c in world.release_columns(s2) if c not in ("X", "Y", "lon", "lat")]
            v = f.get("variant", "no_xy")
            if v == "only_x":
                cols.insert(cols.index("Z"), "X")
            elif v == "only_lon":
                cols.insert(cols.index("Z"), "lon")
            ap.release_columns = cols
            ap.kinds.append(k)
        elif k == "release_file_missing":
            ap.file_ops.append(("delete", "release.rls"))
            ap.kinds.append(k)
        elif k == "config_file_missing":
            ap.no_config = True
            ap.kinds.append(k)
        elif k == "section_missing":
            ap.cfg_edits.append(lambda cfg, sec=f["section"]: cfg.pop(sec, None))
            ap.kinds.append(k)
        elif k == "subgrid_illegal":
            jm, im = truth.dims(sc)
            sg = {"i0_zero": [0, im - 1, 1, jm - 1], "i1_too_big": [1, im, 1, jm - 1], "i_reversed": [im - 2, 2, 1, jm - 1],
                  "j0_zero": [1, im - 1, 0, jm - 1], "j1_too_big": [1, im - 1, 1, jm], "j_reversed": [1, im - 1, jm - 2, 2],
                  "i_empty": [3, 3, 1, jm - 1],
                  # negative bounds count from the far end; reaching beyond the near end is illegal too
                  "i1_neg_beyond": [2, -(im + 3), 1, jm - 1], "j1_neg_beyond": [1, im - 1, 2, -(jm + 2)],
                  "i0_neg_beyond": [-(2 * im - 2), im - 1, 1, jm - 1]}[f.get("variant", "i0_zero")]
            ap.cfg_edits.append(lambda cfg, sg=sg: cfg["grid"].__setitem__("subgrid", sg))
            ap.kinds.append(k)
        elif k == "bad_period":
            def edit(cfg, f=f):
                if f.get("where", "dt") == "dt":
                    cfg["time"]["dt"] = f["value"]
                else:
                    cfg["output"]["output_period"] = f["value"]
            ap.cfg_edits.append(edit)
            ap.kinds.append(k)
    return s2, ap


def _keep_frames(sc, keep: list[int]) -> None:
    fr = sc["frames"]
    part = world.frame_partition(sc)
    fr["offsets"] = [fr["offsets"][i] for i in keep]
    ks = set(keep)
    if fr.get("split"):
        counts = [len([i for i in p if i in ks]) for p in part]
        if fr.get("per_file"):
            fr["per_file"] = [pf for pf, m in zip(fr["per_file"], counts) if m > 0]
        fr["split"] = [m for m in counts if m > 0]
    for c in ("amp_u", "amp_v"):
        if sc["flow"].get(c):
            sc["flow"][c] = [sc["flow"][c][i] for i in keep]
    w = sc["flow"].get("w")
    if w and w.get("amp"):
        w["amp"] = [w["amp"][i] for i in keep]


def run_setup(sc, ap: Applied | None, d: Path, res: Result):
    world.write_world(sc, d)
    edits = []
    if ap is not None:
        if ap.dup_frames is not None:
            fi, frame = ap.dup_frames
            names, part = world.forcing_file_names(sc), world.frame_partition(sc)
            world.write_forcing_file(d / names[fi], sc, [frame, *part[fi]])
        if ap.inner is not None:
            fi, frames = ap.inner
            names = world.forcing_file_names(sc)
            if ap.dup_frames is not None and ap.dup_frames[0] == fi:
                frames = [ap.dup_frames[1], *frames]
            world.write_forcing_file(d / names[fi], sc, frames)
        if ap.release_columns is not None:
            _rewrite_release(sc, d, ap.release_columns)
        for op, arg in ap.file_ops:
            if op == "delete":
                (d / arg).unlink()
            elif op == "delete_forcing":
                for p in d.glob("forcing_*.nc"):
                    p.unlink()
        edits = ap.cfg_edits

    def cfg_edit(cfg):
        for e in edits:
            try:
                e(cfg)
            except KeyError:
                pass        # the section this edit targets was removed by another fault of the combination
        return cfg

    if ap is not None and ap.no_config:
        run = driver.run_config(d / "no_such_config.yaml")
        run.dir = d
    else:
        run = driver.run_scenario(sc, d, write=False, cfg_edit=cfg_edit, snap=False,
                                  spelling="yaml2" if ap is not None and ap.cfg_edits else None)
    account_run(res, run, sc)
    return run


def _rewrite_release(sc, d: Path, cols: list[str]) -> None:
    lines = []
    rel = sc["release"]
    if rel.get("header", True):
        lines.append(" ".join(cols))
    else:
        pass
    full = (d / "release.rls").read_text().splitlines()
    allcols = world.release_columns(sc)
    body = full[1:] if rel.get("header", True) else full
    for ln in body:
        items = dict(zip(allcols, ln.split()))
        if "lon" in cols and "lon" not in items:
            items["lon"] = "5.0"
        lines.append(" ".join(items[c] for c in cols))
    (d / "release.rls").write_text("\n".join(lines) + "\n")
    rel["_cols_override"] = cols


def execute(sc) -> Result:
    res = Result()
    sc = copy.deepcopy(sc)
    try:
        s2, ap = apply_faults(sc)
    except AssertionError:
        # an effect proof failed: in this combination the faults do not make the set-up impossible (they interfere
        # with each other); nothing is judged, the case is counted
        res.probes["combination_without_effect"] += 1
        return res
    T = sc["time"]
    res.history_key = "|".join(map(str, (sorted(ap.kinds), bool(T.get("reversed")), len(world.frame_partition(sc)),
                                         bool(sc["release"].get("continuous")))))
    for k in ap.kinds:
        res.faults[k] += 1
        res.probes["applied:" + k] += 1
    if len(ap.kinds) > 1:
        res.probes["combination"] += 1
    for n_ in ap.notes:
        res.probes[n_] += 1
    if not ap.kinds:
        return res
    res.nontrivial = True
    # ---- control: the unfaulted base starts (sampled, it costs a run)
    d = world.new_dir()
    try:
        if int(sc["plan"]["faults"][0]["r"] * 1000) % 4 == 0:
            run0 = run_setup(sc, None, d, res)
            if run0.error is not None and run0.error.phase in ("configure", "init"):
                res.harness_error = "control run of the unfaulted base was refused: " + run0.error.brief()
                return res
            res.probes["control_started"] += 1
            world.rm_dir(d)
            d = world.new_dir()
        names_in_cfg = None
        if ap.release_columns is not None and not s2["release"].get("header", True):
            cols = ap.release_columns
            ap.cfg_edits.append(lambda cfg, cols=cols: cfg["release"].__setitem__("names", cols))
        run = run_setup(s2, ap, d, res)
        kinds = "+".join(sorted(ap.kinds))
        started = run.error is None or run.error.phase not in ("configure", "init", "main")
        res.feed(kinds, started, run.error.brief() if run.error else "")
        if started:
            what = "ran to the end" if run.error is None else "ran until " + run.error.brief()
            res.add(Violation(f"C20.accepted.{kinds}", None, "start-up", f"accepted; {what}", "refused at start-up"))
        R = readback.Records(readback.list_output_files(d))
        if R.recs:
            res.add(Violation(f"C20.record_written.{kinds}", None, "output", f"{len(R.recs)} records written", "no record"))
    finally:
        world.rm_dir(d)
    return res
