"""C11 - random-walk diffusion has the configured variance and no bias."""

from __future__ import annotations

import copy
import math

import numpy as np

from ladsim import driver, world
from ladsim.oracles.common import Result, Violation, account_run, crash_violation
from ladsim.rng import stream

ID = "C11"
LEVEL = "exploration"
ANCHORS = ("ladim/tracker.py",)
K = 6.5   # width of every statistical acceptance band in standard errors
RULE = ("whole-model runs in an analytic still-water plug-in world without boundaries in reach, a cloud of N particles "
        "(2e4 quick, up to 1e6 thorough) released in one point, D, Dz, dt and dx/dy drawn over several decades, 1..50 "
        "steps, numpy Generator injected through the default_rng seam with a seed derived from VERIF_SEED; per step "
        "and cumulatively: |mean| <= 6.5 sigma/sqrt(N), variance within 6.5*sqrt(2/N) of 2*D*dt/dx^2 (dy for Y, "
        "2*Dz*dt for Z), correlation X-Y, X-Z, lag-1 autocorrelation of increments and correlation between "
        "neighbouring particles within 6.5/sqrt(N), cloud variance growing as 2*D*t; with D = Dz = 0 in a rotating "
        "flow two runs with different injected seeds must be bit-identical; a tenth of the cases continues a cloud far "
        "from the grid origin, with steps near the single-precision resolution of its coordinates, from an output "
        "file holding 32-bit positions (warm start). Non-trivial: >= 2 steps judged; distinct "
        "by the parameter setting")
COMPONENTS = {"real": ["Tracker.update (diffuse, diffuse_vert, conversion to grid units, reflection code path)",
                       "Model loop", "State"],
              "stub": ["analytic Grid/Forcing plug-ins", "numpy Generator seeded by the simulator"]}
ASSUMPTIONS = ["acceptance bands are 6.5 standard errors wide; a wrong factor (2*D*dt vs 2*D/dt, dx vs dy, missing "
               "sqrt) moves the statistic by far more than that for N >= 2e4",
               "normality of the increments is not part of the statement and is not tested"]
TIERS = {"quick": dict(runs=160, budget_s=45, shrink=30, min_nontrivial=2),
         "thorough": dict(runs=900, budget_s=900, shrink=60)}
REQUIRED_PROBES = ["horizontal", "vertical", "vertical_with_advection", "nonuniform_metric_cells_changed", "more_than_65536_particles", "roms_grid", "roms_grid_more_than_32768_cells", "anisotropic", "zero_coefficients", "warm_start_f4"]
CASE_TIMEOUT = 600


ROMS_PROFILE = None


def generate_roms(seed: int, s) -> dict:
    """a cloud in still water on a ROMS grid read from files: the spacing comes from Grid.metric of the real grid class
    (non-uniform, also on grids with more than 2**15 cells), the particles sit in one of the northernmost rows"""
    from ladsim import gen, truth

    big = s.chance(0.5)
    prof = gen.profile(nsteps=(2, 4), p_reversed=0.0, p_land=0.0, p_subgrid=0.3, p_bathy_var=0.3, N=(1, 2),
                       flow_kinds=(("const", 1),), p_time_dependent=0.0, p_levels=0.0, p_temp=0.0, rows=(1, 1),
                       p_late_rows=0.0, p_rows_outside=0.0, p_continuous=0.0, p_ibm=0.0, schemes=(("EF", 1), ("RK4", 1)),
                       p_numrec=0.0, p_dense=0.0, p_pvars=0.0, p_extra_float=0.0, p_extra_time=0.0, p_lonlat_out=0.0,
                       p_metric_vary=1.0, p_metric_aniso=0.5, p_big_grid=1.0 if big else 0.0, p_stop_extra=0.0,
                       p_multifile=0.0, p_packed=0.0, dts=(60, 600, 3600), grid_i=(12, 20), grid_j=(12, 18),
                       p_w=0.0, p_vertdiff=0.0, p_diffusion=0.0)
    sc = gen.gen_scenario(seed, prof)
    sc["flow"] = {"kind": "const", "u0": 0.0, "v0": 0.0}
    xlo, xhi, ylo, yhi = truth.valid_region(sc)
    if xhi - xlo < 6 or yhi - ylo < 6:
        sc["grid"]["subgrid"] = None
        xlo, xhi, ylo, yhi = truth.valid_region(sc)
    # one release point at a cell centre of a northern row, away from the border of the valid region
    x = float(int(s.uniform(xlo + 2, xhi - 2)))
    y = float(int(yhi - s.uniform(2.0, 3.0)))
    assert xlo + 1 < x < xhi - 1 and ylo + 1 < y < yhi - 1, (x, y, xlo, xhi, ylo, yhi)
    dx, dy = truth.metric(sc)
    dxl, dyl = float(dx[int(y), int(x)]), float(dy[int(y), int(x)])
    dt = truth.dt_s(sc)
    r = 10 ** s.uniform(-2.0, -1.3) * min(dxl, dyl)          # rms step of a few hundredths of a cell
    D = float(f"{r * r / (2 * dt):.6g}")
    N = 20000
    sc["release"] = {"rows": [{"step": 0, "mult": N, "X": x, "Y": y, "Z": 1.0, "tag": 0}],
                     "extra": [{"name": "tag", "type": "int"}], "header": True}
    sc["tracker"] = {"advection": sc["tracker"].get("advection", "EF"), "diffusion": D}
    sc["ibm"] = {}
    sc["output"] = {"period": sc["time"]["nsteps"], "numrec": 0, "ivars": {"pid": "i4", "X": "f8"}}
    sc["plan"] = {"kind": "roms", "N": N, "D": D, "dxl": dxl, "dyl": dyl, "rng": s.randint(1, 2**31), "big": big}
    return sc


def generate(seed: int, tier: str, idx: int) -> dict:
    s = stream(seed, "c11")
    if stream(seed, "c11.kind").chance(0.15):
        return generate_roms(seed, s)
    dt = s.pick([10, 60, 600, 3600, 86400])
    dx = s.pick([10.0, 200.0, 1000.0, 4000.0, 20000.0])
    dy = dx * (s.pick([0.5, 2.0, 3.0]) if s.chance(0.4) else 1.0)
    kind = s.wpick([("diff", 8), ("zero", 1), ("warm", 1)])
    N = s.wpick([(20000, 6), (70000, 1)]) if tier == "quick" else s.pick([20000, 70000, 100000, 1000000])
    nsteps = s.randint(2, 12) if N > 100000 else s.randint(2, 50)
    # rms displacement per step between 1e-3 and 3 cells
    D = 0.0
    Dz = 0.0
    if kind == "diff":
        if s.chance(0.85):
            r = 10 ** s.uniform(-3, 0.5) * dx
            D = float(f"{r * r / (2 * dt):.6g}")
        if s.chance(0.6) or D == 0.0:
            rz = 10 ** s.uniform(-2, 1.5)
            Dz = float(f"{rz * rz / (2 * dt):.6g}")
    if kind == "warm":
        # a cloud far from the grid origin taking steps of the order of the single-precision resolution of
        # its coordinates, continued from an output file that stores positions as 32-bit floats
        N = 20000
        nsteps = s.randint(6, 20)
        r = 10 ** s.uniform(-4.6, -3.3) * dx
        D = float(f"{r * r / (2 * dt):.6g}")
        Dz = 0.0
    depth = 1.0e9
    an = {"dx": dx, "dy": dy, "depth": depth, "size": 1.0e9, "flow": {"kind": "still"}}
    if kind == "diff" and D and s.chance(0.35):
        # grid spacing that differs from one column of cells to the next: the random step of a particle is converted
        # with the spacing of the cell it is in when the step begins
        an["dx_alt"] = s.pick([2.0, 4.0, 0.5])
        if s.chance(0.7):       # steps long enough to change cell within a few steps
            r = 10 ** s.uniform(-0.7, 0.3) * dx
            D = float(f"{r * r / (2 * dt):.6g}")
    if kind == "diff" and Dz and s.chance(0.4):
        # vertical advection on top of the vertical random walk: the drift is w*dt, the spread is unchanged
        an["w0"] = float(f"{s.pick([-1, 1]) * 10 ** s.uniform(-1, 1) * math.sqrt(2 * Dz / dt):.6g}")
    if kind == "zero":
        an["flow"] = {"kind": "rot", "om0": 0.3 / dt, "xc": 0.0, "yc": 0.0}
        N = 2000
    return {"world": "analytic", "analytic": an,
            "plan": {"kind": kind, "N": N, "dt": dt, "nsteps": nsteps, "D": D, "Dz": Dz,
                     "advection": s.pick(["EF", "", "RK4"]) if kind == "diff" else "RK4",
                     "rng": s.randint(1, 2**31)}}


def features(sc) -> set[str]:
    pl = sc["plan"]
    f = {"kind_" + pl["kind"]}
    if pl["kind"] == "roms":
        return f | ({"big_grid"} if pl.get("big") else set())
    if pl["D"]:
        f.add("diffusion")
    if pl["Dz"]:
        f.add("vertdiff")
    if sc["analytic"]["dx"] != sc["analytic"]["dy"]:
        f.add("anisotropic_metric")
    if sc["analytic"].get("w0"):
        f.add("vertical_advection")
    if sc["analytic"].get("dx_alt"):
        f.add("nonuniform_metric")
    return f


def base_reductions(sc):
    pl = sc["plan"]
    if pl["kind"] == "roms":
        return
    if pl["nsteps"] > 2:
        c = copy.deepcopy(sc)
        c["plan"]["nsteps"] = max(2, pl["nsteps"] // 2)
        yield "shorter", c
    for key in ("D", "Dz"):
        if pl[key] and pl["D" if key == "Dz" else "Dz"]:
            c = copy.deepcopy(sc)
            c["plan"][key] = 0.0
            yield f"no_{key}", c
    if sc["analytic"]["dx"] != sc["analytic"]["dy"]:
        c = copy.deepcopy(sc)
        c["analytic"]["dy"] = sc["analytic"]["dx"]
        yield "isotropic", c
    if sc["analytic"].get("w0"):
        c = copy.deepcopy(sc)
        c["analytic"].pop("w0")
        yield "no_w", c
    if sc["analytic"].get("dx_alt"):
        c = copy.deepcopy(sc)
        c["analytic"].pop("dx_alt")
        yield "uniform_metric", c
    if pl["advection"] != "EF":
        c = copy.deepcopy(sc)
        c["plan"]["advection"] = "EF"
        yield "EF", c


def scenario(sc) -> dict:
    pl = sc["plan"]
    depth = sc["analytic"]["depth"]
    rows = [{"step": 0, "mult": pl["N"], "X": 0.25, "Y": -0.5, "Z": depth / 2, "tag": 0}]
    if pl["kind"] == "warm":
        rows = [{"step": 0, "mult": pl["N"], "X": 1000.3, "Y": 900.7, "Z": 10.0, "tag": 0}]
    if pl["kind"] == "zero":
        rows = [{"step": 0, "mult": 1, "X": 1.0 + 0.01 * k, "Y": 2.0 - 0.02 * k, "Z": 5.0, "tag": k} for k in range(50)]
    tr = {"advection": pl["advection"]}
    if pl["D"]:
        tr["diffusion"] = pl["D"]
    if pl["Dz"]:
        tr["vertdiff"] = pl["Dz"]
    if sc["analytic"].get("w0"):
        tr["vertical_advection"] = True
    return {
        "world": "analytic", "analytic": sc["analytic"], "flow": {}, "frames": {},
        "time": {"start": "2000-01-01T00:00:00", "dt": pl["dt"], "nsteps": pl["nsteps"]},
        "release": {"rows": rows, "extra": [{"name": "tag", "type": "int"}], "header": True},
        "ibm": {}, "tracker": tr,
        "output": ({"period": pl["nsteps"], "numrec": 0, "ivars": {"pid": "i4", "X": "f8"}} if pl["kind"] != "warm" else
                   {"period": 2, "numrec": 1, "ivars": {"pid": "i4", "X": "f4", "Y": "f4", "Z": "f4", "tag": "i4"}}),
        "spelling": "yaml2",
    }


def corr(a, b) -> float:
    a = a - a.mean()
    b = b - b.mean()
    den = math.sqrt(float((a * a).sum() * (b * b).sum()))
    return float((a * b).sum() / den) if den > 0 else 0.0


def execute_roms(sc) -> Result:
    """increments of a cloud on a ROMS grid, in units of the spacing of the (single) start cell"""
    res = Result()
    pl = sc["plan"]
    s2 = {k: v for k, v in sc.items() if k != "plan"}
    res.history_key = "roms|" + repr(sorted((k, v) for k, v in pl.items() if k != "rng")) + repr(sc["grid"].get("subgrid"))
    incs: list[tuple] = []
    hold: dict = {}

    def monitor(label, snap, rec):
        if label == "tracker.pre":
            hold["pre"] = (snap["vars"]["X"].copy(), snap["vars"]["Y"].copy())
        elif label == "tracker.post" and "pre" in hold:
            X0, Y0 = hold.pop("pre")
            if len(snap["vars"]["X"]) == len(X0):
                incs.append((snap["vars"]["X"] - X0, snap["vars"]["Y"] - Y0, X0, Y0, snap["step"]))
        rec.snaps.clear()

    run = driver.run_scenario(s2, rng_seed=pl["rng"], monitors=[monitor])
    try:
        account_run(res, run, s2)
        v, foreign = crash_violation(ID, run, ANCHORS + ("ladim/ROMS.py",))
        if v is not None:
            res.add(v)
        if foreign:
            res.aborted_foreign += 1
        N, dt = pl["N"], int(s2["time"]["dt"])
        se_mean, se_var = K / math.sqrt(N), K * math.sqrt(2.0 / N)
        judged = 0
        for dX, dY, X0, Y0, n in incs:
            if len(dX) != N:
                res.premise_left += 1
                continue
            # everybody still in the cell the cloud was released in (the steps are a few hundredths of a cell)
            if (np.round(X0) != round(sc["release"]["rows"][0]["X"])).any() or (np.round(Y0) != round(sc["release"]["rows"][0]["Y"])).any():
                res.premise_left += 1
                continue
            judged += 1
            res.feed(dX[:64], dY[:64])
            for name, d, dl in (("X", dX, pl["dxl"]), ("Y", dY, pl["dyl"])):
                sg = math.sqrt(2 * pl["D"] * dt) / dl
                m, var = float(d.mean()), float(d.var())
                if abs(m) > se_mean * sg:
                    res.add(Violation("C11.mean", n, f"ROMS grid: mean of d{name} / sigma", m / sg, f"|.| <= {se_mean:.4g}"))
                if abs(var / (sg * sg) - 1.0) > se_var:
                    res.add(Violation("C11.variance", n, f"ROMS grid: var(d{name}) / (2 D dt / d{name.lower()}^2 of the cell)",
                                      var / (sg * sg), f"1 +- {se_var:.4g}"))
            if len(res.violations) > 4:
                break
        res.nontrivial = judged >= 2
        if judged:
            res.probes["roms_grid"] += 1
            if pl.get("big"):
                res.probes["roms_grid_more_than_32768_cells"] += 1
    finally:
        world.rm_dir(run.dir)
    return res


def execute(sc) -> Result:
    if sc["plan"]["kind"] == "roms":
        return execute_roms(sc)
    res = Result()
    pl = sc["plan"]
    res.history_key = repr(sorted((k, v) for k, v in pl.items() if k != "rng")) + repr(sorted(sc["analytic"].items(), key=str))
    s2 = scenario(sc)
    if pl["kind"] == "zero":
        outs = []
        for seed in (pl["rng"], pl["rng"] + 17):
            run = driver.run_scenario(s2, rng_seed=seed)
            account_run(res, run, s2)
            world.rm_dir(run.dir)
            if run.error is not None:
                v, foreign = crash_violation(ID, run, ANCHORS)
                if v is not None:
                    res.add(v)
                return res
            last = run.rec.snaps_at("tracker.post")[-1]
            outs.append((last["vars"]["X"].copy(), last["vars"]["Y"].copy(), last["vars"]["Z"].copy()))
        res.feed(*outs[0])
        res.nontrivial = True
        res.probes["zero_coefficients"] += 1
        for a, b, name in zip(outs[0], outs[1], "XYZ"):
            if not np.array_equal(a, b):
                res.add(Violation("C11.not_deterministic_at_zero", None, f"{name} after {pl['nsteps']} steps with D = Dz = 0",
                                  "differs between two injected seeds", "bit-identical"))
        return res

    # only the tracker snapshots are needed: keep memory bounded for 1e6 particles
    incs: list[tuple] = []
    state0: dict = {}

    def monitor(label, snap, rec):
        if label == "tracker.pre":
            state0["pre"] = (snap["vars"]["X"], snap["vars"]["Y"], snap["vars"]["Z"])
            state0.setdefault("first", state0["pre"])
        elif label == "tracker.post" and "pre" in state0:
            X0, Y0, Z0 = state0.pop("pre")
            X1, Y1, Z1 = snap["vars"]["X"], snap["vars"]["Y"], snap["vars"]["Z"]
            if len(X1) == len(X0):
                incs.append((X1 - X0, Y1 - Y0, Z1 - Z0, X1, Y1, Z1, snap["step"]))
        rec.snaps.clear()

    if pl["kind"] == "warm":
        d = world.new_dir()
        s1 = copy.deepcopy(s2)
        s1["time"]["nsteps"] = 2
        run1 = driver.run_scenario(s1, d, rng_seed=pl["rng"] + 5, snap=False)
        account_run(res, run1, s1)
        incs.clear()
        state0.clear()
        if run1.error is not None:
            res.aborted_foreign += 1
            world.rm_dir(d)
            return res
        run = driver.run_scenario(s2, d, write=False, warm_file=str(d / "out_000.nc"), out_name="warm_001.nc",
                                  cfg_name="warm", rng_seed=pl["rng"], monitors=[monitor])
        res.probes["warm_start_f4"] += 1
    else:
        run = driver.run_scenario(s2, rng_seed=pl["rng"], monitors=[monitor])
    try:
        account_run(res, run, s2)
        v, foreign = crash_violation(ID, run, ANCHORS)
        if v is not None:
            res.add(v)
        if foreign:
            res.aborted_foreign += 1
        N = pl["N"]
        dt = pl["dt"]
        dx, dy = sc["analytic"]["dx"], sc["analytic"]["dy"]
        sig = {"X": math.sqrt(2 * pl["D"] * dt) / dx, "Y": math.sqrt(2 * pl["D"] * dt) / dy,
               "Z": math.sqrt(2 * pl["Dz"] * dt)}
        drift = {"X": 0.0, "Y": 0.0, "Z": float(sc["analytic"].get("w0", 0.0)) * dt}
        alt = float(sc["analytic"].get("dx_alt", 0.0))
        crossed = False
        se_mean = K / math.sqrt(N)
        se_var = K * math.sqrt(2.0 / N)
        se_corr = K / math.sqrt(N)
        prev = None
        judged = 0
        first = state0.get("first")
        for dX, dY, dZ, X1, Y1, Z1, n in incs:
            if len(dX) != N:
                res.premise_left += 1
                continue
            judged += 1
            res.feed(dX[:64], dY[:64], dZ[:64])
            if alt:
                # increments in units of the spacing of the start cell, rescaled to the base spacing
                X0 = X1 - dX
                dX = dX * np.where((np.round(X0).astype(int) % 2) != 0, alt, 1.0)
            comp = {"X": dX, "Y": dY, "Z": dZ}
            for name, d in comp.items():
                s_ = sig[name]
                if s_ == 0.0:
                    if np.any(d != 0.0):
                        res.add(Violation("C11.variance", n, f"d{name} with zero coefficient", float(np.abs(d).max()), 0.0))
                    continue
                m = float(d.mean()) - drift[name]
                if abs(m) > se_mean * s_:
                    res.add(Violation("C11.mean", n, f"(mean of d{name} - drift {drift[name]:.6g}) / sigma", m / s_,
                                      f"|.| <= {se_mean:.4g}"))
                var = float(d.var())
                if abs(var / (s_ * s_) - 1.0) > se_var:
                    res.add(Violation("C11.variance", n, f"var(d{name}) / expected ({s_ * s_:.6g})", var / (s_ * s_),
                                      f"1 +- {se_var:.4g}"))
                c = corr(d[:-1], d[1:])
                if abs(c) > se_corr:
                    res.add(Violation("C11.independence", n, f"correlation of d{name} between neighbouring particles", c,
                                      f"|.| <= {se_corr:.4g}"))
                if prev is not None and len(prev[name]) == N:
                    c = corr(prev[name], d)
                    if abs(c) > se_corr:
                        res.add(Violation("C11.autocorr", n, f"correlation of d{name} with the previous step", c,
                                          f"|.| <= {se_corr:.4g}"))
            for a, b in (("X", "Y"), ("X", "Z"), ("Y", "Z")):
                if sig[a] and sig[b]:
                    c = corr(comp[a], comp[b])
                    if abs(c) > se_corr:
                        res.add(Violation("C11.cov", n, f"correlation d{a}-d{b}", c, f"|.| <= {se_corr:.4g}"))
            prev = comp
            # the cloud spreads with variance 2 D t
            if first is not None:
                t_steps = n + 1
                for name, P1, P0 in (("X", X1, first[0]), ("Y", Y1, first[1]), ("Z", Z1, first[2])):
                    if name == "X" and alt:
                        crossed = crossed or bool((np.round(P1).astype(int) != np.round(P0).astype(int)).mean() > 0.2)
                        continue        # the cloud does not spread uniformly in grid units on a non-uniform grid
                    if sig[name]:
                        var = float((P1 - P0).var())
                        want = sig[name] ** 2 * t_steps
                        if abs(var / want - 1.0) > se_var:
                            res.add(Violation("C11.variance", n, f"cloud variance of {name} after {t_steps} steps / (2 D t)",
                                              var / want, f"1 +- {se_var:.4g}"))
            if len(res.violations) > 8:
                break
        res.nontrivial = judged >= 2
        if judged:
            if pl["D"]:
                res.probes["horizontal"] += 1
                if dx != dy:
                    res.probes["anisotropic"] += 1
            if pl["Dz"]:
                res.probes["vertical"] += 1
            if sc["analytic"].get("w0"):
                res.probes["vertical_with_advection"] += 1
            if N > 65536:
                res.probes["more_than_65536_particles"] += 1
            if alt:
                res.probes["nonuniform_metric"] += 1
                if crossed:
                    res.probes["nonuniform_metric_cells_changed"] += 1
    finally:
        world.rm_dir(run.dir)
    return res


def warm_up() -> None:
    sc = generate(12345, "quick", 0)
    sc["plan"].update(N=100, nsteps=2, advection="RK4")
    execute(sc)
