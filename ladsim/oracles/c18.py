"""C18 - one simulation, three spellings: YAML v2, TOML v2, legacy v1 give the same run."""

from __future__ import annotations

import copy
from pathlib import Path

import numpy as np

from ladsim import driver, gen, readback, truth, world
from ladsim.oracles.common import Result, Violation, account_run, crash_violation
from ladsim.rng import stream

ID = "C18"
LEVEL = "exploration"
ANCHORS = ("ladim/configure.py", "ladim/model.py")
RULE = ("seeded simulations inside the version-1 vocabulary (discrete/continuous release, extra release columns as "
        "particle variables, IBM state variables, scalar forcing, diffusion off or with the seeded RNG seam, subgrid, "
        "one or several forcing files) written as version-2 YAML, version-2 TOML and legacy version-1 YAML, plus "
        "version-2 variants with the grid file/module omitted (literal and wildcard forcing file name) and with "
        "optional sections omitted versus empty; all runs of a case must produce the same records (every variable "
        "bit-equal; container format may differ). Non-trivial: >= 3 spellings ran and >= 2 records with particles; "
        "distinct by (release mode, columns, diffusion, subgrid, forcing files, variants)")
COMPONENTS = {"real": ["configure (file type and version dispatch)", "configure_v2 defaults", "configure_v1 translation",
                       "init_module/load_module with default modules (no shims)", "the whole model"],
              "stub": ["synthetic ocean files", "scripted IBM (lifetime, age)", "seeded numpy Generator"]}
ASSUMPTIONS = ["forcing.module is always given (the property does not say what an omitted forcing module means)",
               "the release file has no header line (version 1 always passes the column names)"]
TIERS = {"quick": dict(runs=220, budget_s=50, shrink=80),
         "thorough": dict(runs=15000, budget_s=900, shrink=150)}
REQUIRED_PROBES = ["v1", "toml", "grid_omitted", "wildcard", "sections_omitted", "diffusion", "continuous", "leftover_frequency", "user_gridforce_module", "grid_in_first_file_only", "native_yaml_timestamps", "times_with_seconds", "grid_in_grid_file_only", "diffusion_written_as_integer"]

PROFILE = gen.profile(
    nsteps=(2, 24), p_reversed=0.0, p_land=0.4, p_subgrid=0.35, N=(1, 4), p_vinfo=0.0, cfl=(0.05, 0.6),
    p_temp=0.5, rows=(1, 8), p_late_rows=0.7, p_rows_outside=0.2, p_continuous=0.4, p_header=0.0, p_ibm=0.6,
    p_kills=0.0, p_deact=0.0, p_lifetime=0.7, p_weight=0.0, p_diffusion=0.3, p_numrec=0.0, p_dense=0.0,
    p_extra_float=0.5, p_extra_time=0.0, p_pvars=1.0, p_release_time_pvar=0.0, p_lonlat_out=0.0, period=(1, 5),
    p_reference=0.4, p_multifile=0.5, spellings=(("yaml2", 1),), p_stop_extra=0.1, p_f4=0.5,
    dts=(10, 20, 30, 60, 90, 300, 600, 900, 3600, 86400),
)


def generate(seed: int, tier: str, idx: int) -> dict:
    s = stream(seed, "c18")
    sc = gen.gen_scenario(seed, PROFILE)
    # inside the v1 vocabulary: extra release columns are particle variables
    for c in sc["release"]["extra"]:
        c["particle"] = True
    out = sc["output"]
    out["pvars"] = {c["name"]: ("i4" if c["type"] == "int" else "f8") for c in sc["release"]["extra"]}
    for c in sc["release"]["extra"]:
        out["ivars"].pop(c["name"], None)
    sc.pop("spell", None)
    if sc["release"].get("mult_column") is False:
        sc["release"].pop("mult_column")
        sc["release"].pop("col_order", None)
    sc["plan"] = {"omit_ibm": s.chance(0.5), "alt_module": s.chance(0.4), "native_times": s.chance(0.5)}
    if sc["tracker"].get("diffusion") and stream(seed, "c18.intdiff").chance(0.5):
        sc["tracker"]["diffusion"] = stream(seed, "c18.intdiff.v").pick([1, 2, 5, 10])     # written as "1", not "1.0"
    if len(world.frame_partition(sc)) > 1 and s.chance(0.6):
        sc["frames"]["grid_in_first_only"] = True     # "the first forcing file" is then the only possible grid file
    elif s.chance(0.25):
        # the grid exists in the grid file only: every spelling has to use the grid file it is given
        sc["frames"]["no_grid_in_forcing"] = True
    if not sc["release"].get("continuous") and s.chance(0.5):
        # a discrete release whose configuration still carries a release frequency (ignored: not continuous)
        sc["plan"]["leftover_freq_steps"] = s.randint(1, 4)
        sc["plan"]["v1_release_type"] = s.pick(["discrete", None])
    return sc


# ----------------------------------------------------------------------------
# version 1 spelling
# ----------------------------------------------------------------------------


def v1_config(sc, d: Path, cfg2: dict) -> dict:
    """translate the version-2 dictionary of a (v1-expressible) scenario into the legacy vocabulary"""
    ivars, pvars, defaults = world.state_types(sc)
    c: dict = {}
    tc = {"start_time": cfg2["time"]["start"], "stop_time": cfg2["time"]["stop"]}
    if "reference" in cfg2["time"]:
        tc["reference_time"] = cfg2["time"]["reference"]
    c["time_control"] = tc
    c["files"] = {"particle_release_file": cfg2["release"]["release_file"],
                  "output_file": cfg2["output"]["filename"]}
    mod = cfg2["forcing"]["module"]
    gf: dict = {"module": "ladim1.gridforce.ROMS" if mod == "ladim.ROMS" else mod,
                "input_file": cfg2["forcing"]["filename"]}
    if "filename" in cfg2.get("grid", {}):
        gf["gridfile"] = cfg2["grid"]["filename"]
    if "subgrid" in cfg2.get("grid", {}):
        gf["subgrid"] = cfg2["grid"]["subgrid"]
    if "extra_forcing" in cfg2["forcing"]:
        gf["extra_forcing"] = cfg2["forcing"]["extra_forcing"]
    c["gridforce"] = gf
    if ivars:
        ibm: dict = {"variables": list(ivars)}
        if "ibm" in cfg2 and "module" in cfg2["ibm"]:
            ibm["ibm_module"] = cfg2["ibm"]["module"]
            for k, v in cfg2["ibm"].items():
                if k != "module":
                    ibm[k] = v
        c["ibm"] = ibm
    pr: dict = {"variables": world.release_columns(sc), "particle_variables": list(pvars)}
    for name, t in pvars.items():
        pr[name] = t
    if sc["release"].get("continuous"):
        pr["release_type"] = "continuous"
        pr["release_frequency"] = cfg2["release"]["release_frequency"]
    elif "release_frequency" in cfg2["release"]:
        pr["release_frequency"] = cfg2["release"]["release_frequency"]
        if PLAN.get("v1_release_type"):
            pr["release_type"] = PLAN["v1_release_type"]
    c["particle_release"] = pr
    c["numerics"] = {"dt": cfg2["time"]["dt"], "advection": cfg2["tracker"].get("advection", "EF"),
                     "diffusion": cfg2["tracker"].get("diffusion", 0.0)}
    ov: dict = {"outper": cfg2["output"]["output_period"], "format": "NETCDF4",
                "instance": list(cfg2["output"]["instance_variables"]),
                "particle": list(cfg2["output"].get("particle_variables", {}))}
    for group in ("instance_variables", "particle_variables"):
        for name, conf in cfg2["output"].get(group, {}).items():
            ov[name] = {"ncformat": conf["encoding"]["datatype"], **conf["attributes"]}
    c["output_variables"] = ov
    return c


def run_variant(res: Result, sc, label: str, edit=None, spelling="yaml2", v1=False, v1_edit=None):
    import yaml

    d = world.new_dir()
    try:
        world.write_world(sc, d)
        cfg = world.build_config(sc, d, shims=False)
        if PLAN.get("alt_module"):
            alt = str(world.PLUGIN_DIR / "alt_roms.py")
            cfg["grid"]["module"] = alt
            cfg["forcing"]["module"] = alt
        lf = PLAN.get("leftover_freq_steps")
        if lf:
            cfg["release"]["release_frequency"] = int(lf) * truth.dt_s(sc)
            if PLAN.get("explicit_false"):
                cfg["release"]["continuous"] = False
        if edit is not None:
            cfg = edit(cfg, d) or cfg
        if PLAN.get("native_times") and spelling != "toml2":
            # unquoted YAML timestamps: the reader hands over datetime objects instead of strings
            import datetime

            for k in ("start", "stop", "reference"):
                if isinstance(cfg["time"].get(k), str):
                    cfg["time"][k] = datetime.datetime.fromisoformat(cfg["time"][k])
        if v1:
            cfg = v1_config(sc, d, cfg)
            if v1_edit is not None:
                cfg = v1_edit(cfg, d) or cfg
            path = d / "ladim_v1.yaml"
            path.write_text(yaml.safe_dump(cfg, sort_keys=False))
        else:
            path = world.write_config(cfg, d, spelling)
        run = driver.run_config(path, rng_seed=11)
        run.dir = d
        account_run(res, run, sc)
        if run.error is not None:
            return run, None
        R = readback.Records(readback.list_output_files(d))
        recs = []
        for r in R.recs:
            recs.append((str(r["time"]), {k: np.asarray(v) for k, v in r["data"].items()}))
        pv = {}
        for f in R.files:
            for name in f.particle_vars:
                pv[name] = np.asarray(f.vars[name])
        return run, (recs, pv)
    finally:
        world.rm_dir(d)


def differ(a, b) -> str | None:
    (ra, pa), (rb, pb) = a, b
    if len(ra) != len(rb):
        return f"{len(rb)} records instead of {len(ra)}"
    for k, ((ta, da), (tb, db)) in enumerate(zip(ra, rb)):
        if ta != tb:
            return f"record {k}: time {tb} instead of {ta}"
        if set(da) != set(db):
            return f"record {k}: variables {sorted(db)} instead of {sorted(da)}"
        for name in sorted(da):
            x, y = da[name], db[name]
            if x.shape != y.shape or not np.array_equal(x, y, equal_nan=x.dtype.kind == "f"):
                return f"record {k}: {name} = {y} instead of {x}"
    if set(pa) != set(pb):
        return f"particle variables {sorted(pb)} instead of {sorted(pa)}"
    for name in sorted(pa):
        if pa[name].shape != pb[name].shape or not np.array_equal(pa[name], pb[name], equal_nan=pa[name].dtype.kind == "f"):
            return f"particle variable {name} = {pb[name]} instead of {pa[name]}"
    return None


PLAN: dict = {}


def execute(sc) -> Result:
    res = Result()
    sc = copy.deepcopy(sc)
    plan = sc.pop("plan", {})
    PLAN.clear()
    PLAN.update(plan)
    PLAN["explicit_false"] = bool(plan.get("leftover_freq_steps", 0) % 2)
    if plan.get("omit_ibm"):
        sc["ibm"] = {}
        for v in ("age", "weight", "dose"):
            sc["output"]["ivars"].pop(v, None)
    nfiles = len(world.frame_partition(sc))
    res.history_key = "|".join(map(str, (bool(sc["release"].get("continuous")), [c["name"] for c in sc["release"]["extra"]],
                                         bool(sc["tracker"].get("diffusion")), sc["grid"].get("subgrid"), nfiles,
                                         plan.get("omit_ibm"), sc["time"]["nsteps"], sc["output"]["period"])))
    base_run, base = run_variant(res, sc, "yaml2")
    if base is None:
        v, foreign = crash_violation(ID, base_run, ANCHORS)
        if v is not None:
            res.add(v)
        elif foreign:
            res.aborted_foreign += 1
        return res
    for t, dct in base[0]:
        res.feed(t, *[dct[k] for k in sorted(dct)])
    nonempty = sum(1 for _, dct in base[0] if len(next(iter(dct.values()))) > 0)
    ran = 1

    def judge(tag, label, run, got):
        nonlocal ran
        if got is None:
            res.add(Violation(tag, None, label, run.error.brief(), "same run as version-2 YAML"))
            return
        ran += 1
        diff = differ(base, got)
        if diff:
            res.add(Violation(tag, None, label, diff, "identical output"))

    run, got = run_variant(res, sc, "toml2", spelling="toml2")
    judge("C18.yaml_vs_toml", "version-2 TOML", run, got)
    res.probes["toml"] += 1
    run, got = run_variant(res, sc, "v1", v1=True)
    judge("C18.v2_vs_v1", "legacy version-1 YAML", run, got)
    res.probes["v1"] += 1

    # ---- version 1 without a grid file: the (first) forcing file is the grid file, also for a wildcard
    def v1_no_gridfile(cfg, d):
        cfg["gridforce"].pop("gridfile", None)
        if nfiles == 1:
            cfg["gridforce"]["input_file"] = str(d / "forcing_*.nc") if sc["time"]["nsteps"] % 2 else cfg["gridforce"]["input_file"]
        return cfg

    separate = bool(sc["frames"].get("no_grid_in_forcing"))
    if not separate:
        run, got = run_variant(res, sc, "v1_no_gridfile", v1=True, v1_edit=v1_no_gridfile)
        judge("C18.v2_vs_v1", "legacy version-1 YAML without gridfile", run, got)

    def v1_files_section(cfg, d):
        # the legacy format also accepts the file names in the files section
        cfg["files"]["input_file"] = cfg["gridforce"].pop("input_file")
        if "gridfile" in cfg["gridforce"]:
            cfg["files"]["gridfile"] = cfg["gridforce"].pop("gridfile")
        return cfg

    run, got = run_variant(res, sc, "v1_files_section", v1=True, v1_edit=v1_files_section)
    judge("C18.v2_vs_v1", "legacy version-1 YAML, file names in the files section", run, got)

    # ---- grid file / module omitted: forcing module and first forcing file are used
    def omit_grid(cfg, d):
        g = cfg["grid"]
        g.pop("filename", None)
        g.pop("module", None)
        if not g:
            cfg.pop("grid")
        return cfg

    def omit_grid_module(cfg, d):
        cfg["grid"].pop("module", None)      # the section stays (file name, subgrid): the forcing module's Grid applies
        return cfg

    run, got = run_variant(res, sc, "grid_module_omitted", edit=omit_grid_module)
    judge("C18.default_grid", "grid section without module", run, got)
    for sp in ("toml2",):
        run, got = run_variant(res, sc, "grid_module_omitted_toml", edit=omit_grid_module, spelling=sp)
        judge("C18.default_grid", "grid section without module (TOML)", run, got)
    if not separate:
        run, got = run_variant(res, sc, "grid_omitted", edit=omit_grid)
        judge("C18.default_grid", "grid file and module omitted", run, got)
        res.probes["grid_omitted"] += 1
    else:
        res.probes["grid_in_grid_file_only"] += 1
    if nfiles == 1 and not separate:
        def wildcard(cfg, d):
            omit_grid(cfg, d)
            cfg["forcing"]["filename"] = str(d / "forcing_*.nc")
            return cfg

        run, got = run_variant(res, sc, "wildcard", edit=wildcard)
        judge("C18.wildcard", "grid omitted, forcing file name as wildcard", run, got)
    res.probes["wildcard"] += 1      # several files: the base itself uses a wildcard and the grid-omitted variant covers it

    # ---- optional sections omitted versus empty
    def empty_sections(cfg, d):
        cfg.setdefault("ibm", {})
        cfg.setdefault("warm_start", {})
        cfg.setdefault("state", {})
        return cfg

    def omitted_sections(cfg, d):
        for sec in ("ibm", "warm_start", "state"):
            if not cfg.get(sec):
                cfg.pop(sec, None)
        return cfg

    run, got = run_variant(res, sc, "empty", edit=empty_sections)
    judge("C18.empty_section", "optional sections given as empty", run, got)
    run, got = run_variant(res, sc, "omitted", edit=omitted_sections)
    judge("C18.empty_section", "empty optional sections omitted", run, got)
    res.probes["sections_omitted"] += 1
    if sc["tracker"].get("diffusion"):
        res.probes["diffusion"] += 1
        if isinstance(sc["tracker"]["diffusion"], int):
            res.probes["diffusion_written_as_integer"] += 1
    if sc["release"].get("continuous"):
        res.probes["continuous"] += 1
    if plan.get("leftover_freq_steps"):
        res.probes["leftover_frequency"] += 1
    if plan.get("alt_module"):
        res.probes["user_gridforce_module"] += 1
    if sc["frames"].get("grid_in_first_only"):
        res.probes["grid_in_first_file_only"] += 1
    if plan.get("native_times"):
        res.probes["native_yaml_timestamps"] += 1
        if int(str(truth.t_start(sc))[-2:]):
            res.probes["times_with_seconds"] += 1
    res.nontrivial = ran >= 3 and nonempty >= 2
    return res
