"""C01 - advection integrates the velocity field with the scheme's order of accuracy."""

from __future__ import annotations

import copy
import math
import sys

import numpy as np

from ladsim import driver, gen, refmodel, truth, world
from ladsim.oracles.common import Result, Violation, abstract_history, account_run, crash_violation
from ladsim.rng import stream

ID = "C01"
LEVEL = "exploration"
ANCHORS = ("ladim/tracker.py", "ladim/analytical.py")
RULE = ("three kinds of seeded cases: (step) whole-model runs on ROMS-file worlds, diffusion off; before every "
        "Tracker.update a monitor computes, with the forcing's own public velocity() at the stage positions and "
        "fractional times and the ground-truth local spacing dx, dy, the displacement of every named tableau of the "
        "selected order (EF; midpoint/Heun/Ralston; classical RK4/3-8 rule) and the step must match one of them; the "
        "matching tableau fed with the ground-truth forcing (reference interpolation) must give the same step too; "
        "(order) analytic rotating/shear flows with time-modulated rate and anisotropic spacing, run at dt, dt/2, "
        "dt/4 against the exact flow map, observed order >= nominal - 0.4; (helper) ladim.analytical.get_velocity1/2/4 "
        "driven by a user time loop, same order test. Non-trivial: >= 1 particle judged in open water with non-zero "
        "velocity (step) or all three resolutions completed (order/helper); distinct by (kind, scheme, field, "
        "metric, dt) and abstract history")
COMPONENTS = {"real": ["Tracker (EF, RK2, RK4, RKstep, clip, RK4avg)", "ROMS Forcing.velocity(fractional_step)",
                       "ROMS Grid.metric", "Model loop", "ladim.analytical helpers"],
              "stub": ["synthetic ocean files (step)", "analytic Grid/Forcing plug-ins (order)",
                       "user time loop around the helpers (helper)"]}
ASSUMPTIONS = ["a step whose stage positions leave the valid region, or that ends on land or outside, is not judged here (C09, C17)",
               "order is measured on three step sizes: shows 'not lower than', not the limit"]
TIERS = {"quick": dict(runs=700, budget_s=50, shrink=150),
         "thorough": dict(runs=40000, budget_s=900, shrink=250)}
REQUIRED_PROBES = ["step_truth_judged", "step_EF", "step_RK2", "step_RK4", "order_EF", "order_RK2", "order_RK4", "helper",
                   "anisotropic_metric", "time_dependent"]
NOMINAL = {"EF": 1, "RK2": 2, "RK4": 4}

STEP_PROFILE = gen.profile(
    nsteps=(2, 25), p_reversed=0.2, p_land=0.4, p_subgrid=0.3, p_bathy_var=0.5, N=(1, 5),
    flow_kinds=(("linear", 3), ("sinus", 3), ("rot", 2), ("const", 1)), cfl=(0.1, 0.8),
    p_time_dependent=0.9, p_levels=0.6, p_temp=0.2, rows=(3, 12), p_continuous=0.15,
    p_ibm=0.3, p_kills=0.3, p_deact=0.5, p_lifetime=0.0, schemes=(("EF", 1), ("RK2", 2), ("RK4", 2)),
    p_metric_aniso=0.5, p_metric_vary=0.4, spacing=(1, 6), p_numrec=0.1, p_dense=0.1, p_pvars=0.1,
    p_extra_time=0.0, p_lonlat_out=0.0, period=(1, 5), p_huge_grid=0.004,
)


# ----------------------------------------------------------------------------
# generation
# ----------------------------------------------------------------------------


def generate(seed: int, tier: str, idx: int) -> dict:
    s = stream(seed, "c01")
    kind = s.wpick([("step", 6), ("order", 3), ("helper", 1)])
    if kind == "step":
        sc = gen.gen_scenario(seed, STEP_PROFILE)
        sc["plan"] = {"kind": "step"}
        return sc
    scheme = s.pick(["EF", "RK2", "RK4"])
    dx = s.pick([200.0, 1000.0, 4000.0])
    dy = dx * (s.pick([0.5, 2.0, 1.25]) if s.chance(0.5) else 1.0)
    dt = s.pick([600, 1200, 3600])
    # rotation angle per coarse step 0.15 .. 0.45 rad, nsteps coarse steps
    ang = s.uniform(0.15, 0.45)
    nst = s.randint(4, 10)
    flowkind = s.wpick([("rot", 4), ("shear", 1)])
    flow = {"kind": flowkind, "xc": round(s.uniform(-2, 2), 2), "yc": round(s.uniform(-2, 2), 2)}
    if flowkind == "rot":
        flow["om0"] = ang / dt * s.pick([1, -1])
    else:
        flow["a"] = ang / dt / dy * dx     # cells of x per cell of y per second -> m/s per m scaled
        flow["b"] = round(s.uniform(-0.3, 0.3) * dx / dt, 6)
    if s.chance(0.75):
        flow["eps"] = round(s.uniform(0.2, 0.6), 3)
        flow["nu"] = round(s.uniform(0.1, 0.45) / dt, 9)      # 0.1 .. 0.45 rad per coarse step
    pts = [[round(s.uniform(-6, 6), 3), round(s.uniform(-6, 6), 3)] for _ in range(s.randint(2, 5))]
    sc = {
        "world": "analytic",
        "analytic": {"dx": dx, "dy": dy, "depth": 100.0, "size": 1.0e5, "flow": flow},
        "plan": {"kind": kind, "scheme": scheme, "points": pts, "dt": dt, "nsteps": nst},
    }
    if kind == "helper":
        sc["plan"]["s"] = s.pick([0.5, 2 / 3, 1.0])
        flow.pop("eps", None)
        flow.pop("nu", None)
    return sc


def features(sc) -> set[str]:
    if sc.get("world") != "analytic":
        return gen.features(sc) | {"kind_step"}
    f = {"kind_" + sc["plan"]["kind"], sc["plan"]["scheme"].lower()}
    a = sc["analytic"]
    if a["dx"] != a["dy"]:
        f.add("anisotropic_metric")
    if a["flow"].get("eps"):
        f.add("time_dependent_flow")
    f.add("flow_" + a["flow"]["kind"])
    return f


def base_reductions_analytic(sc):
    pl = sc["plan"]
    if len(pl["points"]) > 1:
        for i in range(len(pl["points"])):
            c = copy.deepcopy(sc)
            del c["plan"]["points"][i]
            yield f"points:drop{i}", c
    a = sc["analytic"]
    if a["dx"] != a["dy"]:
        c = copy.deepcopy(sc)
        c["analytic"]["dy"] = a["dx"]
        yield "isotropic", c
    if a["flow"].get("eps"):
        c = copy.deepcopy(sc)
        c["analytic"]["flow"].pop("eps")
        c["analytic"]["flow"].pop("nu", None)
        yield "steady", c
    if pl["nsteps"] > 2:
        c = copy.deepcopy(sc)
        c["plan"]["nsteps"] = max(2, pl["nsteps"] // 2)
        yield "shorter", c


def reductions(sc):
    if sc.get("world") == "analytic":
        yield from base_reductions_analytic(sc)


# ----------------------------------------------------------------------------
# (step) one-step refinement inside whole-model runs
# ----------------------------------------------------------------------------


def make_monitor(sc, store: dict):
    scheme = sc["tracker"].get("advection", "EF")
    ref = refmodel.RefWorld(sc)
    dt = float(truth.dt_s(sc))
    tabs = refmodel.TABLEAUX[scheme]
    xlo, xhi, ylo, yhi = truth.valid_region(sc)

    def monitor(label, snap, rec):
        if label != "tracker.pre" or snap["n"] == 0:
            return
        force = rec.modules["forcing"]
        X = snap["vars"]["X"].astype(float)
        Y = snap["vars"]["Y"].astype(float)
        Z = snap["vars"]["Z"].astype(float)
        dx, dy = ref.metric(X, Y)
        inside = np.ones(len(X), dtype=bool)

        def vel(xs, ys, zs, t):
            nonlocal inside
            ok = (xs > xlo) & (xs < xhi) & (ys > ylo) & (ys < yhi)
            inside &= ok
            xq = np.clip(xs, xlo + 1e-6, xhi - 1e-6)
            yq = np.clip(ys, ylo + 1e-6, yhi - 1e-6)
            rec.in_probe = True
            try:
                U, V = force.velocity(xq.copy(), yq.copy(), zs.copy(), fractional_step=t - snap["step"])
            finally:
                rec.in_probe = False
            return np.asarray(U, dtype=float), np.asarray(V, dtype=float)

        out = {}
        for name, tab in tabs.items():
            out[name] = refmodel.rk_displacement(vel, X, Y, Z, snap["step"], dt, dx, dy, tab)
        ef = refmodel.rk_displacement(vel, X, Y, Z, snap["step"], dt, dx, dy, refmodel.TABLEAUX["EF"]["euler"])
        # the same step with the ground-truth forcing (reference interpolation in space and time): the
        # velocity the forcing supplies is, by C02/C03, this one.  The level pair and weight are taken either
        # at the start position for all stages or at each stage position (the statement leaves it open).
        truth_disp = {}
        try:
            vert0 = ref.vertical(X, Y, Z)[:3]

            def vel_fixed(xs, ys, zs, t):
                return ref.velocity(np.clip(xs, xlo + 1e-6, xhi - 1e-6), np.clip(ys, ylo + 1e-6, yhi - 1e-6), zs, t, vert=vert0)

            def vel_own(xs, ys, zs, t):
                return ref.velocity(np.clip(xs, xlo + 1e-6, xhi - 1e-6), np.clip(ys, ylo + 1e-6, yhi - 1e-6), zs, t)

            for name, tab in tabs.items():
                truth_disp[name] = [refmodel.rk_displacement(vf, X, Y, Z, snap["step"], dt, dx, dy, tab)
                                    for vf in (vel_fixed, vel_own)]
        except ValueError:
            truth_disp = {}
        store[snap["step"]] = {"disp": out, "inside": inside.copy(), "ef": ef, "truth": truth_disp, "dx": dx, "dy": dy}

    return monitor, ref


def execute_step(sc) -> Result:
    res = Result()
    scheme = sc["tracker"].get("advection", "EF")
    store: dict = {}
    monitor, ref = make_monitor(sc, store)
    run = driver.run_scenario(sc, monitors=[monitor])
    try:
        account_run(res, run, sc)
        res.history_key = "|".join(map(str, ("step", scheme, sc["flow"]["kind"], sc["grid"].get("metric"),
                                             truth.dt_s(sc)))) + "|" + abstract_history(run, sc)
        v, foreign = crash_violation(ID, run, ANCHORS)
        if v is not None:
            res.add(v)
        if foreign:
            res.aborted_foreign += 1
        pre = run.rec.snap_by_step("tracker.pre")
        post = run.rec.snap_by_step("tracker.post")
        judged = 0
        distinguishing = 0
        for n, exp in store.items():
            if n not in post or post[n]["n"] != pre[n]["n"]:
                continue
            X0, Y0 = pre[n]["vars"]["X"], pre[n]["vars"]["Y"]
            X1, Y1 = post[n]["vars"]["X"], post[n]["vars"]["Y"]
            res.feed(X1, Y1)
            alive0 = pre[n]["vars"]["alive"] & pre[n]["vars"]["active"]
            best = None
            for name, (dX, dY) in exp["disp"].items():
                xe, ye = X0 + dX, Y0 + dY
                ok = alive0 & exp["inside"] & ref.in_valid(xe, ye, 1e-6) & np.isfinite(xe) & np.isfinite(ye)
                ok &= ~ref.near_tie(xe, ye)
                okk = ok.copy()
                okk[ok] = ref.at_sea(xe[ok], ye[ok])
                ok = okk
                tol = 1e-9 + 1e-7 * (np.abs(dX) + np.abs(dY))
                bad = ok & ((np.abs(X1 - xe) > tol) | (np.abs(Y1 - ye) > tol))
                cand = (int(bad.sum()), name, ok, bad, xe, ye)
                if best is None or cand[0] < best[0]:
                    best = cand
            nbad, name, ok, bad, xe, ye = best
            judged += int(ok.sum())
            efx, efy = exp["ef"]
            if scheme != "EF" and ok.any():
                d = np.abs(xe - (X0 + efx)) + np.abs(ye - (Y0 + efy))
                distinguishing += int((d[ok] > 1e-6).sum())
            if nbad:
                p = int(np.nonzero(bad)[0][0])
                res.add(Violation(f"C01.step.{scheme}", n, f"particle {p} from ({X0[p]:.5f},{Y0[p]:.5f})",
                                  f"moved to ({X1[p]:.9f},{Y1[p]:.9f})",
                                  f"({xe[p]:.9f},{ye[p]:.9f}) by {name} (closest tableau of the order)"))
            elif exp.get("truth", {}).get(name) and ok.any():
                # end to end: the same tableau fed with the ground-truth forcing
                tolv = 2e-4 * ref.scale() * truth.dt_s(sc)
                tx, ty = tolv / exp["dx"] + 1e-7, tolv / exp["dy"] + 1e-7
                miss = None
                okt = ok & ~ref.near_tie(X0, Y0)       # the own cell of a start position on a cell edge is a tie
                for dXt, dYt in exp["truth"][name]:
                    m = okt & ((np.abs(X1 - (X0 + dXt)) > tx) | (np.abs(Y1 - (Y0 + dYt)) > ty))
                    miss = m if miss is None else miss & m
                res.probes["step_truth_judged"] += 1
                if miss is not None and miss.any():
                    p = int(np.nonzero(miss)[0][0])
                    dXt, dYt = exp["truth"][name][0]
                    res.add(Violation(f"C01.step_truth.{scheme}", n, f"particle {p} from ({X0[p]:.5f},{Y0[p]:.5f})",
                                      f"moved to ({X1[p]:.9f},{Y1[p]:.9f})",
                                      f"({X0[p] + dXt[p]:.9f},{Y0[p] + dYt[p]:.9f}) by {name} in the ground-truth flow"))
        res.nontrivial = judged > 0 and (scheme == "EF" or distinguishing > 0)
        if res.nontrivial:
            res.probes[f"step_{scheme}"] += 1
            f = gen.features(sc)
            if "anisotropic_metric" in f:
                res.probes["anisotropic_metric"] += 1
            if sc["grid"]["imax0"] * sc["grid"]["jmax0"] * truth.vert(sc)["N"] >= 2**21 and not sc["grid"].get("subgrid"):
                res.probes["more_than_2**21_field_points"] += 1
            if "time_dependent_flow" in f:
                res.probes["time_dependent"] += 1
    finally:
        world.rm_dir(run.dir)
    return res


# ----------------------------------------------------------------------------
# (order) convergence towards the exact flow map
# ----------------------------------------------------------------------------


def theta(flow, T: float) -> float:
    """integral of the rate modulation g(t) = 1 + eps sin(nu t) over [0, T]"""
    eps, nu = flow.get("eps", 0.0), flow.get("nu", 0.0)
    if eps and nu:
        return T + eps * (1 - math.cos(nu * T)) / nu
    return T


def exact_map(an, pts, T: float):
    flow = an["flow"]
    dx, dy = an["dx"], an["dy"]
    xc, yc = flow.get("xc", 0.0), flow.get("yc", 0.0)
    P = np.array(pts, dtype=float)
    x, y = P[:, 0] - xc, P[:, 1] - yc
    G = theta(flow, T)
    if flow["kind"] == "rot":
        th = flow["om0"] * G
        r = dy / dx
        return (xc + x * math.cos(th) - r * y * math.sin(th),
                yc + y * math.cos(th) + x / r * math.sin(th))
    # shear: dX/dt = (a (Y-yc) dy + b) g(t) / dx
    return xc + x + (flow["a"] * y * dy + flow.get("b", 0.0)) * G / dx, yc + y


def analytic_scenario(sc, dt: int, nsteps: int) -> dict:
    pl = sc["plan"]
    rows = [{"step": 0, "mult": 1, "X": p[0], "Y": p[1], "Z": 5.0, "tag": k} for k, p in enumerate(pl["points"])]
    return {
        "world": "analytic", "analytic": sc["analytic"], "flow": {}, "frames": {},
        "time": {"start": "2000-01-01T00:00:00", "dt": dt, "nsteps": nsteps},
        "release": {"rows": rows, "extra": [{"name": "tag", "type": "int"}], "header": True},
        "ibm": {}, "tracker": {"advection": pl["scheme"]},
        "output": {"period": nsteps, "numrec": 0, "ivars": {"pid": "i4", "X": "f8", "Y": "f8", "tag": "i4"}},
        "spelling": "yaml2",
    }


def run_order(sc, res: Result, runner) -> list[float] | None:
    pl = sc["plan"]
    errs = []
    T = pl["dt"] * pl["nsteps"]
    xe, ye = exact_map(sc["analytic"], pl["points"], float(T))
    for k in (1, 2, 4):
        if pl["dt"] % k:
            return None
        xy = runner(sc, pl["dt"] // k, pl["nsteps"] * k, res)
        if xy is None:
            return None
        errs.append(float(np.max(np.hypot(xy[0] - xe, xy[1] - ye))))
    return errs


def _model_runner(sc, dt, nsteps, res):
    s2 = analytic_scenario(sc, dt, nsteps)
    run = driver.run_scenario(s2, snap=True)
    try:
        account_run(res, run, s2)
        v, foreign = crash_violation(ID, run, ANCHORS)
        if v is not None:
            res.add(v)
        if run.error is not None:
            if foreign:
                res.aborted_foreign += 1
            return None
        last = run.rec.snaps_at("tracker.post")[-1]
        res.feed(last["vars"]["X"], last["vars"]["Y"])
        if last["n"] != len(sc["plan"]["points"]):
            return None
        return last["vars"]["X"].astype(float), last["vars"]["Y"].astype(float)
    finally:
        world.rm_dir(run.dir)


def _helper_runner(sc, dt, nsteps, res):
    """the user time loop of examples/circle around ladim.analytical.get_velocityN"""
    from ladim import analytical
    from ladim.state import State

    pl = sc["plan"]
    an = sc["analytic"]
    flow = an["flow"]
    xc, yc = flow.get("xc", 0.0), flow.get("yc", 0.0)

    def sample(x, y):      # velocity in grid cells per second
        if flow["kind"] == "rot":
            return (-flow["om0"] * (y - yc) * an["dy"] / an["dx"], flow["om0"] * (x - xc) * an["dx"] / an["dy"])
        return ((flow["a"] * (y - yc) * an["dy"] + flow.get("b", 0.0)) / an["dx"], 0.0 * y)

    state = State()
    P = np.array(pl["points"], dtype=float)
    state.append(X=P[:, 0], Y=P[:, 1], Z=5.0)
    for _ in range(nsteps):
        if pl["scheme"] == "EF":
            vel = analytical.get_velocity1(state, sample, dt)
        elif pl["scheme"] == "RK2":
            vel = analytical.get_velocity2(state, sample, dt, s=pl.get("s", 1.0))
        else:
            vel = analytical.get_velocity4(state, sample, dt)
        state["X"] = state.X + dt * vel.U
        state["Y"] = state.Y + dt * vel.V
    res.executions += 1
    res.feed(state.X, state.Y)
    return state.X.astype(float), state.Y.astype(float)


def analytic_velocity(an):
    """velocity function (X, Y, Z, t in coarse-independent seconds) of an analytic world, in m/s"""
    flow = an["flow"]
    xc, yc = flow.get("xc", 0.0), flow.get("yc", 0.0)

    def vel(X, Y, t):
        g = 1.0 + flow.get("eps", 0.0) * np.sin(flow.get("nu", 0.0) * t)
        if flow["kind"] == "rot":
            om = flow["om0"] * g
            return -om * (Y - yc) * an["dy"], om * (X - xc) * an["dx"]
        return (flow["a"] * (Y - yc) * an["dy"] + flow.get("b", 0.0)) * g, np.zeros_like(Y)

    return vel


def reference_orders(sc) -> list[float]:
    """observed orders of my own integrators of the nominal order on the same case (best tableau):
    tells whether the case is in the asymptotic regime at these step sizes"""
    pl = sc["plan"]
    an = sc["analytic"]
    vel0 = analytic_velocity(an)
    T = pl["dt"] * pl["nsteps"]
    xe, ye = exact_map(an, pl["points"], float(T))
    best = None
    for _name, tab in refmodel.TABLEAUX[pl["scheme"]].items():
        errs = []
        for k in (1, 2, 4):
            dt = pl["dt"] / k
            P = np.array(pl["points"], dtype=float)
            X, Y = P[:, 0].copy(), P[:, 1].copy()
            Z = np.zeros_like(X)
            for n in range(pl["nsteps"] * k):
                def vel(xs, ys, zs, tt, dt=dt):
                    return vel0(xs, ys, tt * dt)
                dX, dY = refmodel.rk_displacement(vel, X, Y, Z, n, dt, an["dx"], an["dy"], tab)
                X, Y = X + dX, Y + dY
            errs.append(float(np.max(np.hypot(X - xe, Y - ye))))
        orders = [math.log2(a / b) for a, b in zip(errs[:-1], errs[1:]) if a > 1e-11 and b > 1e-11]
        if orders and (best is None or min(orders) > min(best)):
            best = orders
    return best or []


def execute_order(sc, helper: bool) -> Result:
    res = Result()
    pl = sc["plan"]
    scheme = pl["scheme"]
    res.history_key = "|".join(map(str, (pl["kind"], scheme, sc["analytic"]["flow"], sc["analytic"]["dx"],
                                         sc["analytic"]["dy"], pl["dt"], pl["nsteps"], len(pl["points"]))))
    try:
        errs = run_order(sc, res, _helper_runner if helper else _model_runner)
    except Exception as e:  # noqa: BLE001
        if helper:
            res.add(Violation(f"C01.crash:{type(e).__name__}@analytical", None, "helper", str(e)[:200], "runs"))
            return res
        raise
    if errs is None:
        return res
    res.nontrivial = True
    res.probes[("helper" if helper else f"order_{scheme}")] += 1
    if sc["analytic"]["dx"] != sc["analytic"]["dy"]:
        res.probes["anisotropic_metric"] += 1
    if sc["analytic"]["flow"].get("eps"):
        res.probes["time_dependent"] += 1
    nominal = NOMINAL[scheme]
    floor = 1e-11
    orders = []
    for a, b in zip(errs[:-1], errs[1:]):
        if b < floor or a < floor:
            continue      # converged to rounding: nothing to measure
        orders.append(math.log2(a / b))
    tag = f"C01.helper_order.{nominal}" if helper else f"C01.order.{scheme}"
    # only "too low" is a violation, and only when both resolutions agree on it: a single low
    # estimate on the coarse pair is pre-asymptotic behaviour, not a degraded scheme
    if orders and max(orders) < nominal - 0.4:
        # judged only where the case is in the asymptotic regime: a reference integrator of the nominal
        # order must itself show the order at these step sizes (quadrature errors of a modulated
        # shear can cancel and give meaningless ratios on a correct scheme)
        ro = reference_orders(sc)
        if not ro or min(ro) < nominal - 0.25:
            res.premise_left += 1
            return res
        res.add(Violation(tag, None, f"errors at dt, dt/2, dt/4 = {[float(f'{e:.4g}') for e in errs]}",
                          f"observed order {[round(o, 2) for o in orders]}", f">= {nominal - 0.4}"))
    return res


def execute(sc) -> Result:
    kind = sc["plan"]["kind"]
    if kind == "step":
        return execute_step(sc)
    return execute_order(sc, helper=(kind == "helper"))


def warm_up() -> None:
    for adv, seed in (("RK4", 11), ("RK2", 12), ("EF", 13)):
        sc = gen.gen_scenario(seed, gen.profile(nsteps=(2, 2), p_reversed=0, p_ibm=0, p_land=0, p_subgrid=0))
        sc["tracker"] = {"advection": adv}
        run = driver.run_scenario(sc, probe_fracs=(0, 0.5))
        world.rm_dir(run.dir)
