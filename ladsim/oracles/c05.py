"""C05 - particle identity: pids dense, ordered, never reused, following the particle."""

from __future__ import annotations

import copy
import itertools

import numpy as np

from ladsim import driver, gen, readback, world
from ladsim.oracles.common import Result, Violation, abstract_history, account_run, crash_violation
from ladsim.rng import stream

ID = "C05"
LEVEL = "exploration"
ANCHORS = ("ladim/state.py",)
OPS = ["A1", "A2", "AB", "AD", "K0", "KL", "KM", "C", "S"]
RULE = ("operation programs against the real State (extra instance variables age, tag; particle variables X0, born) "
        "over the alphabet {append scalar, append array, append broadcast, append with defaults, kill first, kill "
        "last, kill every second, compactify, item assignment}: every program up to length 5 (quick, 66 429 programs) / 6 (thorough, 597 870 programs; "
        "exhaustively, plus seeded random programs of length 6..60, checked after every operation "
        "against a dict reference (pid -> record); and whole-model runs (release, IBM deaths, out-of-grid deaths, "
        "compactify at output steps) whose every snapshot and output record is checked for pid monotony, no reuse, "
        "pid -> tag / particle-variable stability. evaluations counts cases (a case = one batch of programs or one "
        "model run); programs counts individual programs. Non-trivial: a program containing at least an append, a "
        "kill and a compactify / a model run with a death and a later release; distinct by program text or history")
COMPONENTS = {"real": ["State (append, compactify, __setitem__, __getattr__)", "Model loop + Output.write (model cases)"],
              "stub": ["dict reference model (oracle)", "synthetic ocean files and scripted IBM (model cases)"]}
ASSUMPTIONS = ["particle variables are addressed by pid and never compactified (doc/source/state.rst, test_state)"]
TIERS = {"quick": dict(runs=9 + 400, budget_s=45, shrink=80),
         "thorough": dict(runs=9 + 25000, budget_s=600, shrink=120)}
EXHAUSTIVE = {"quick": False, "thorough": False}
REQUIRED_PROBES = ["exhaustive_batch", "random_batch", "model_run", "model_death_then_release", "model_warm_start"]

MODEL_PROFILE = gen.profile(
    nsteps=(4, 30), p_reversed=0.15, rows=(2, 8), p_late_rows=0.9, p_continuous=0.4, p_ibm=0.9, p_kills=0.9,
    p_lifetime=0.4, cfl=(0.1, 0.8), p_numrec=0.4, p_dense=0.0, p_pvars=0.6, p_extra_float=0.4, p_extra_time=0.0,
    p_temp=0.3, N=(1, 3), period=(1, 4), p_lonlat_out=0.0, p_release_time_pvar=0.5,
)


def generate(seed: int, tier: str, idx: int) -> dict:
    s = stream(seed, "c05")
    maxlen = 6 if tier == "thorough" else 5
    if idx < 9:
        return {"plan": {"kind": "batch", "first": OPS[idx], "maxlen": maxlen}}
    # random batches and model runs alternate so that a budget cut leaves both kinds covered
    if (idx - 9) % 5 == 0:
        progs = []
        for _ in range(40):
            n = s.randint(6, 60)
            progs.append([s.pick(OPS) for _ in range(n)])
        return {"plan": {"kind": "random", "programs": progs}}
    sc = gen.gen_scenario(seed, MODEL_PROFILE)
    sc["plan"] = {"kind": "model"}
    if s.chance(0.3):
        # continued from its first completed output file, with a per-particle variable that the release file supplies,
        # that has a configured default and that the first run did not write: after the restart it holds the default
        # for the particles released so far and must keep following the identifiers of those released later
        sc["output"]["numrec"] = s.randint(1, 3)
        sc["output"]["period"] = s.pick([1, 1, 2])
        sc.get("spell", {}).pop("period", None)
        gen.make_restartable(sc)
        sc["release"]["extra"].append({"name": "pw", "type": "float", "particle": True, "state_default": -1.0})
        sc["release"].pop("col_order", None)
        for r in sc["release"]["rows"]:
            r["pw"] = 100.0 + r["tag"]
        sc["plan"]["warm"] = True
    return sc


def features(sc) -> set[str]:
    k = sc["plan"]["kind"]
    if k == "model":
        return gen.features(sc) | {"kind_model"}
    return {"kind_" + k}


# ----------------------------------------------------------------------------
# reference model and program interpreter
# ----------------------------------------------------------------------------


class RefState:
    def __init__(self) -> None:
        self.order: list[int] = []
        self.rec: dict[int, dict] = {}
        self.pv: dict[int, dict] = {}
        self.npid = 0

    def append(self, rows: list[dict]) -> None:
        for r in rows:
            p = self.npid
            self.npid += 1
            self.order.append(p)
            self.rec[p] = {k: r[k] for k in ("X", "Y", "Z", "age", "tag", "alive", "active")}
            self.pv[p] = {"X0": r["X0"], "born": r["born"]}

    def compactify(self) -> None:
        self.order = [p for p in self.order if self.rec[p]["alive"]]


T0 = np.datetime64("2000-01-01T00:00:00", "s")


def run_program(ops: list[str]):
    """returns None or (op index, what, observed, expected)"""
    from ladim.state import State

    st = State(instance_variables={"age": float, "tag": int},
               particle_variables={"X0": float, "born": "time"},
               default_values={"age": 0.0, "tag": -1, "X0": -1.0, "born": T0})
    ref = RefState()
    counter = 0

    def check(i):
        if list(st.pid) != ref.order:
            return (i, "pid", list(st.pid), ref.order)
        if st.npid != ref.npid:
            return (i, "npid", st.npid, ref.npid)
        if len(st) != len(ref.order):
            return (i, "len(state)", len(st), len(ref.order))
        for var in ("X", "Y", "Z", "age", "tag", "alive", "active"):
            arr = st[var]
            if len(arr) != len(ref.order):
                return (i, f"len({var})", len(arr), len(ref.order))
            want = [ref.rec[p][var] for p in ref.order]
            if list(arr) != want:
                return (i, var, list(arr), want)
        for var in ("X0", "born"):
            arr = st[var]
            if len(arr) != ref.npid:
                return (i, f"len({var})", len(arr), ref.npid)
            want = [ref.pv[p][var] for p in range(ref.npid)]
            got = list(arr) if var == "X0" else [np.datetime64(x, "s") for x in arr]
            if got != want:
                return (i, var, got, want)
        return None

    for i, op in enumerate(ops):
        living = [k for k, p in enumerate(ref.order) if ref.rec[p]["alive"]]
        try:
            if op == "A1":
                counter += 1
                c = float(counter)
                st.append(X=c, Y=c + 0.5, Z=c + 0.25, age=c * 2, tag=counter, X0=c, born=T0 + counter)
                ref.append([dict(X=c, Y=c + 0.5, Z=c + 0.25, age=c * 2, tag=counter, alive=True, active=True,
                                 X0=c, born=T0 + counter)])
            elif op == "A2":
                cs = [counter + 1, counter + 2]
                counter += 2
                a = np.array(cs, dtype=float)
                st.append(X=a, Y=a + 0.5, Z=a + 0.25, age=a * 2, tag=np.array(cs), X0=a,
                          born=np.array([T0 + c for c in cs]))
                ref.append([dict(X=float(c), Y=c + 0.5, Z=c + 0.25, age=c * 2.0, tag=c, alive=True, active=True,
                                 X0=float(c), born=T0 + c) for c in cs])
            elif op == "AB":
                cs = [counter + 1, counter + 2, counter + 3]
                counter += 3
                a = np.array(cs, dtype=float)
                # every legal way to give one value for all: a scalar, a length-one array, a length-one list
                st.append(X=a, Y=np.array([7.5]), Z=[2.25], age=3.0, tag=np.array([9]), X0=a, born=T0 + 99)
                ref.append([dict(X=float(c), Y=7.5, Z=2.25, age=3.0, tag=9, alive=True, active=True,
                                 X0=float(c), born=T0 + 99) for c in cs])
            elif op == "AD":
                counter += 1
                c = float(counter)
                st.append(X=c, Y=c, Z=c)
                ref.append([dict(X=c, Y=c, Z=c, age=0.0, tag=-1, alive=True, active=True, X0=-1.0, born=T0)])
            elif op in ("K0", "KL", "KM"):
                if living:
                    if op == "K0":
                        idxs = [living[0]]
                    elif op == "KL":
                        idxs = [living[-1]]
                    else:
                        idxs = living[::2]
                    alive = st["alive"].copy()
                    alive[idxs] = False
                    st["alive"] = alive
                    for k in idxs:
                        ref.rec[ref.order[k]]["alive"] = False
            elif op == "C":
                st.compactify()
                ref.compactify()
            elif op == "S":
                buf = st["X"] + 1.0
                st["X"] = buf
                buf += 1000.0          # the caller's own array: the state has its own copy of what was assigned
                st["age"] = st.age + 0.5
                for p in ref.order:
                    ref.rec[p]["X"] += 1.0
                    ref.rec[p]["age"] += 0.5
        except Exception as e:  # noqa: BLE001
            return (i, f"exception in {op}", f"{type(e).__name__}: {e}", "no exception")
        bad = check(i)
        if bad:
            return bad
    return None


def batch_programs(first: str, maxlen: int):
    yield [first]
    for n in range(1, maxlen):
        for tail in itertools.product(OPS, repeat=n):
            yield [first, *tail]


def first_failure(sc):
    pl = sc["plan"]
    progs = batch_programs(pl["first"], pl["maxlen"]) if pl["kind"] == "batch" else pl["programs"]
    n = 0
    for ops in progs:
        n += 1
        bad = run_program(ops)
        if bad:
            return ops, bad, n
    return None, None, n


def base_reductions(sc):
    pl = sc["plan"]
    if pl["kind"] == "model":
        from ladsim import shrink

        yield from shrink.reductions(sc)
        return
    if pl["kind"] in ("batch", "random"):
        ops, bad, _ = first_failure(sc)
        if ops is not None:
            yield "single", {"plan": {"kind": "program", "programs": [ops[: bad[0] + 1]]}}
        return
    ops = pl["programs"][0]
    for i in range(len(ops)):
        yield f"drop{i}", {"plan": {"kind": "program", "programs": [ops[:i] + ops[i + 1:]]}}


def execute_programs(sc) -> Result:
    res = Result()
    pl = sc["plan"]
    progs = batch_programs(pl["first"], pl["maxlen"]) if pl["kind"] == "batch" else pl["programs"]
    nprog = 0
    nontriv = 0
    for ops in progs:
        nprog += 1
        bad = run_program(ops)
        res.digest.update("".join(ops).encode())
        if any(o.startswith("A") for o in ops) and any(o.startswith("K") for o in ops) and "C" in ops:
            nontriv += 1
        if bad:
            i, what, got, want = bad
            tag = {"pid": "C05.pid_order", "npid": "C05.pid_reuse"}.get(what, "C05.alignment")
            if what in ("X0", "born", "len(X0)", "len(born)"):
                tag = "C05.particle_var"
            if what.startswith("exception"):
                tag = "C05.crash@state"
            res.add(Violation(tag, i, f"program {' '.join(ops[: i + 1])}: {what}", got, want))
            if len(res.violations) >= 3:
                break
    res.executions = nprog
    res.probes["programs"] += nprog
    res.probes["exhaustive_batch" if pl["kind"] == "batch" else "random_batch"] += 1
    res.nontrivial = nontriv > 0
    res.history_key = repr(pl)[:200] if pl["kind"] != "random" else "random|" + res.hexdigest()
    return res


def _same_values(a, b) -> bool:
    """equal as values: time-typed variables may change their resolution (seconds / microseconds) on the way"""
    if a.dtype.kind == "M" or b.dtype.kind == "M":
        return bool(np.array_equal(a.astype("M8[us]"), b.astype("M8[us]")))
    return bool(np.array_equal(a.astype(str), b.astype(str)))


def check_identity(res: Result, rec, R) -> None:
    """identity invariants over the snapshots and the output records of a model run"""
    tag_of: dict[int, int] = {}
    seen_max = -1
    prev = None
    for s in rec.snaps:
        pid = s["vars"]["pid"]
        if len(pid) and np.any(np.diff(pid) <= 0):
            res.add(Violation("C05.pid_order", s["step"], f"{s['label']}: pids not strictly increasing", pid, "increasing"))
        if s["npid"] < seen_max + 1:
            res.add(Violation("C05.pid_reuse", s["step"], f"{s['label']}: npid went down", s["npid"], f">= {seen_max + 1}"))
        for name in s["ivars"]:
            if len(s["vars"][name]) != len(pid):
                res.add(Violation("C05.alignment", s["step"], f"{s['label']}: len({name})", len(s["vars"][name]), len(pid)))
        for name in s["pvars"]:
            # addressed by identifier: one value for every identifier handed out so far
            if len(s["vars"][name]) != s["npid"]:
                res.add(Violation("C05.particle_var", s["step"], f"{s['label']}: len({name})", len(s["vars"][name]),
                                  f"npid = {s['npid']}"))
        if "tag" in s["vars"] and len(s["vars"]["tag"]) == len(pid):
            for p, t in zip(pid.tolist(), s["vars"]["tag"].tolist()):
                if p in tag_of and tag_of[p] != t:
                    res.add(Violation("C05.alignment", s["step"], f"{s['label']}: pid {p} changed its release tag",
                                      t, tag_of[p]))
                tag_of.setdefault(p, t)
        if prev is not None:
            new = set(pid.tolist()) - set(prev["vars"]["pid"].tolist())
            if new and min(new) <= seen_max and s["label"] != "release.post":
                res.add(Violation("C05.pid_reuse", s["step"], f"{s['label']}: pids reappeared", sorted(new), "never"))
            if new and s["label"] == "release.post" and min(new) <= seen_max:
                res.add(Violation("C05.pid_reuse", s["step"], "release handed out used pids", sorted(new),
                                  f"> {seen_max}"))
            for name in s["pvars"]:
                a, b = prev["vars"].get(name), s["vars"][name]
                if a is not None and len(b) < len(a):
                    res.add(Violation("C05.particle_var", s["step"], f"{s['label']}: {name} shrank", len(b), len(a)))
                elif a is not None and len(a) and not _same_values(a, b[: len(a)]):
                    res.add(Violation("C05.particle_var", s["step"], f"{s['label']}: {name} of old pids changed",
                                      b[: len(a)], a))
        if len(pid):
            seen_max = max(seen_max, int(pid.max()))
        prev = s
    for k, r in enumerate(R.recs):
        if r["layout"] != "sparse" or "pid" not in r["data"]:
            continue
        pid = np.asarray(r["data"]["pid"]).astype(int)
        if len(pid) and np.any(np.diff(pid) <= 0):
            res.add(Violation("C05.record_order", None, f"record {k}: pid not strictly increasing", pid, "increasing"))
        if np.any(pid < np.arange(len(pid))):
            res.add(Violation("C05.record_order", None, f"record {k}: pid[k] < k", pid, "pid[k] >= k"))


def execute_model(sc) -> Result:
    res = Result()
    d = world.new_dir()
    try:
        run = driver.run_scenario(sc, d)
        account_run(res, run, sc)
        res.history_key = "model|" + abstract_history(run, sc)
        v, foreign = crash_violation(ID, run, ANCHORS)
        if v is not None:
            res.add(v)
        if foreign:
            res.aborted_foreign += 1
        R = readback.Records(readback.list_output_files(d))
        check_identity(res, run.rec, R)
        res.probes["model_run"] += 1
        # a death followed by a later release?
        rp, rq = run.rec.snap_by_step("release.pre"), run.rec.snap_by_step("release.post")
        died_at = [s["step"] for s in run.rec.snaps if s["label"] == "ibm.post" and not s["vars"]["alive"].all()]
        rel_at = [st for st in rq if st in rp and rq[st]["n"] > rp[st]["n"]]
        if died_at and rel_at and max(rel_at) > min(died_at):
            res.probes["model_death_then_release"] += 1
            res.nontrivial = True
        files = readback.list_output_files(d)
        if sc["plan"].get("warm") and run.error is None and len(files) >= 2:
            def edit(cfg):
                cfg["warm_start"]["variables"] = [*cfg["warm_start"]["variables"], "pw"]
                return cfg

            run2 = driver.run_scenario(sc, d, write=False, warm_file=str(files[0]), out_name="warm_001.nc",
                                       cfg_name="warm", cfg_edit=edit)
            account_run(res, run2, sc)
            v, foreign = crash_violation(ID, run2, ANCHORS + ("ladim/warm_start.py",))
            if v is not None:
                res.add(v)
            if run2.error is None:
                res.probes["model_warm_start"] += 1
                check_identity(res, run2.rec, readback.Records(readback.list_output_files(d, "warm")))
                rows = {r["tag"]: r for r in sc["release"]["rows"]}
                first = run2.rec.snaps[0]["npid"] if run2.rec.snaps else 0
                # per-particle values written by the first run and read back: the identifiers released before the
                # restart keep them (whatever the type - a time-typed variable goes through the file as a number)
                if run.rec.snaps and run2.rec.snaps:
                    a_, b_ = run.rec.snaps[-1], run2.rec.snaps[0]
                    for name in b_["pvars"]:
                        if name == "pw" or name not in a_["vars"]:
                            continue
                        va, vb = a_["vars"][name][:first], b_["vars"][name][:first]
                        if len(va) == len(vb) == first and first and not _same_values(va, vb):
                            res.add(Violation("C05.particle_var", None, f"{name} of the identifiers released before the restart",
                                              vb, f"{va} (as the first run had them)"))
                for sn in run2.rec.snaps:
                    pw, pid, tag = sn["vars"].get("pw"), sn["vars"]["pid"], sn["vars"].get("tag")
                    if pw is None or tag is None or len(tag) != len(pid):
                        continue
                    for p_, t_ in zip(pid.tolist(), tag.tolist()):
                        want = -1.0 if p_ < first else rows[int(t_)]["pw"]
                        got = pw[p_] if p_ < len(pw) else None
                        if got is None or float(got) != want:
                            res.add(Violation("C05.particle_var", sn["step"], f"{sn['label']}: pw of pid {p_} after a warm start",
                                              got, want))
                            break
                    if len(res.violations) > 3:
                        break
                if any(sn["npid"] > first for sn in run2.rec.snaps) and first and any(
                        len(sn["vars"]["pid"]) < sn["npid"] for sn in run2.rec.snaps[:1]):
                    res.probes["model_warm_start_after_death_then_release"] += 1
    finally:
        world.rm_dir(d)
    return res


def execute(sc) -> Result:
    if sc["plan"]["kind"] == "model":
        return execute_model(sc)
    return execute_programs(sc)
