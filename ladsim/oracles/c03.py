"""C03 - forcing in time: linear between bracketing frames for any frame/file layout."""

from __future__ import annotations

import numpy as np

from ladsim import driver, gen, refmodel, truth, world
from ladsim.oracles.common import Result, Violation, abstract_history, account_run, crash_violation
from ladsim.rng import stream

ID = "C03"
LEVEL = "exploration"
ANCHORS = ("ladim/ROMS.py", "ladim/timekeeper.py")
FRACS = (0.0, 0.25, 0.5, 1.0)
RULE = ("seeded frame/file layouts (spacing 1..12 steps incl. exactly dt, irregular, 1..6 files incl. one frame per "
        "file, start between frames, frames before start and after stop, forward and reversed, with/without scalar "
        "fields) under the real model; the thorough tier additionally walks the complete table of small layouts (2..5 "
        "frames, spacings in {1,2,3}, <= 3 files, every start offset, both directions: 8964 layouts); at every step the public forcing.velocity(X, Y, Z, fractional_step=f), "
        "f in {0, .25, .5, 1}, and forcing.variables are compared with linear time interpolation of the ground-truth "
        "node values. Non-trivial: at least one frame hand-over happened while a particle was alive. Distinct: "
        "(direction, frame steps relative to start, file partition, scalar on/off, run length)")
COMPONENTS = {"real": ["ROMS Forcing (update, velocity, file switching)", "ROMS Grid", "TimeKeeper", "Model loop",
                       "netCDF4 on tmpfs"],
              "stub": ["ocean model output (synthetic frames)", "reference interpolation (oracle)"]}
ASSUMPTIONS = ["frames lie on the model time grid (premise of the property)",
               "float32 accumulation of the forcing: tolerance 1e-4 of the largest node speed; frame amplitudes differ by >= 8 %"]
TIERS = {"quick": dict(runs=1200, budget_s=50, shrink=150),
         "thorough": dict(runs=150000, budget_s=900, shrink=250)}
REQUIRED_PROBES = ["handover", "spacing_eq_dt", "file_switch", "reversed_file_switch", "start_straddles_files",
                   "one_frame_per_file", "scalar_frame_change"]

PROFILE = gen.profile(
    nsteps=(1, 40), p_reversed=0.35, p_land=0.3, p_subgrid=0.2, p_bathy_var=0.3,
    spacing=(1, 12), p_spacing_one=0.25, p_irregular=0.5, p_multifile=0.75, p_one_frame_per_file=0.2,
    flow_kinds=(("const", 2), ("linear", 3), ("sinus", 1)), p_time_dependent=1.0, cfl=(0.02, 0.25),
    p_temp=0.6, rows=(1, 4), p_continuous=0.1, p_ibm=0.2, p_kills=0.3, p_lifetime=0.0,
    schemes=(("EF", 2), ("RK2", 1), ("RK4", 1)), p_numrec=0.2, p_dense=0.05, p_pvars=0.1,
    p_extra_time=0.0, p_rows_outside=0.1, p_lonlat_out=0.0, N=(1, 4),
)


def _compositions(n: int, maxparts: int):
    if maxparts == 1 or n == 1:
        yield [n]
        return
    yield [n]
    for first in range(1, n):
        for rest in _compositions(n - first, maxparts - 1):
            yield [first, *rest]


def _small_layouts():
    """every layout with 2..5 frames, spacings in {1,2,3}, <= 3 files, every start offset inside the
    first interval, run ending at or one step before the last frame, both directions"""
    import itertools

    out = []
    for nf in range(2, 6):
        for sp in itertools.product((1, 2, 3), repeat=nf - 1):
            for split in _compositions(nf, 3):
                for a in range(sp[0]):
                    last = sum(sp) - a
                    for e in (0, 1):
                        n = last - e
                        if n < 1:
                            continue
                        for rev in (False, True):
                            out.append((sp, tuple(split), a, n, rev))
    return out


SMALL = _small_layouts()
EXHAUSTIVE = {"thorough": False}     # the SMALL table is walked completely in the thorough tier (probe small_layouts)


def generate(seed: int, tier: str, idx: int) -> dict:
    s = stream(seed, "c03")
    prof = dict(PROFILE)
    if tier == "thorough" and idx % 2 == 0 and idx // 2 < len(SMALL):
        sp, split, a, n, rev = SMALL[idx // 2]
        prof.update(nsteps=(n, n), p_reversed=1.0 if rev else 0.0, p_stop_extra=0.0, p_continuous=0.0,
                    p_rows_outside=0.0)
        sc = gen.gen_scenario(seed, prof)
        offs = [-a]
        for d_ in sp:
            offs.append(offs[-1] + d_)
        if rev:
            offs = [-o for o in reversed(offs)]
            split = tuple(reversed(split))
        sc["frames"] = {"offsets": offs, "split": list(split)}
        if s.chance(0.3):
            sc["frames"]["storage"] = "i2"
            sc["frames"]["scale"] = [1.0e-4, 2.5e-4]
        for c in ("u", "v"):
            amps, prev = [], None
            for _ in offs:
                for _try in range(10):
                    v = round(s.uniform(0.35, 1.0) * s.pick([1, 1, 1, -1]), 3)
                    if prev is None or abs(v - prev) > 0.08:
                        break
                amps.append(v)
                prev = v
            sc["flow"]["amp_" + c] = amps
        sc["small_layout"] = True
        return sc
    if s.chance(0.3):
        prof["nsteps"] = (1, 8)     # many short runs over small layouts
        prof["spacing"] = (1, 3)
    return gen.gen_scenario(seed, prof)


def layout_probes(res: Result, sc) -> None:
    sg = truth.sgn(sc)
    steps = truth.frame_steps(sc)
    part = world.frame_partition(sc)
    file_of = {}
    for fi, frames in enumerate(part):
        for f in frames:
            file_of[f] = fi
    n = sc["time"]["nsteps"]
    order = sorted(range(len(steps)), key=lambda f: steps[f])
    inrun = [f for f in order if 0 <= steps[f] < n]
    if inrun:
        res.probes["handover"] += 1
    d = np.diff(sorted(steps))
    used = [f for f in order if -1 <= steps[f] <= n]
    if any(steps[b] - steps[a] == 1 and 0 <= steps[a] < n for a, b in zip(order[:-1], order[1:])):
        res.probes["spacing_eq_dt"] += 1
    sw = [(a, b) for a, b in zip(order[:-1], order[1:]) if file_of[a] != file_of[b] and steps[a] < n and steps[b] >= 0]
    if sw:
        res.probes["file_switch"] += 1
        if sg < 0:
            res.probes["reversed_file_switch"] += 1
    # the two frames bracketing the start live in different files
    before = [f for f in order if steps[f] <= 0]
    after = [f for f in order if steps[f] > 0]
    if before and after and file_of[before[-1]] != file_of[after[0]]:
        res.probes["start_straddles_files"] += 1
    if len(part) > 1 and all(len(p) == 1 for p in part):
        res.probes["one_frame_per_file"] += 1
    if 0 not in steps:
        res.probes["start_between_frames"] += 1
    if "temp" in truth.scalar_names(sc) and len(inrun) > (1 if 0 in steps else 0):
        res.probes["scalar_frame_change"] += 1


def execute(sc) -> Result:
    res = Result()
    ref = refmodel.RefWorld(sc)
    run = driver.run_scenario(sc, probe_fracs=FRACS)
    try:
        account_run(res, run, sc)
        rec = run.rec
        steps = truth.frame_steps(sc)
        res.history_key = "|".join(map(str, (
            truth.sgn(sc), sorted(steps), sc["frames"].get("split"), bool(truth.scalar_names(sc)),
            sc["time"]["nsteps"]))) + "|" + abstract_history(run, sc)
        v, foreign = crash_violation(ID, run, ANCHORS)
        if v is not None:
            res.add(v)
        if foreign:
            res.aborted_foreign += 1
        layout_probes(res, sc)
        if sc.get("small_layout"):
            res.probes["small_layouts"] += 1
        tol = 1e-4 * ref.scale() + 1e-12
        judged = 0
        handover_alive = False
        nsteps = sc["time"]["nsteps"]
        for pr in rec.probes:
            n = pr["step"]
            X, Y, Z = pr["X"], pr["Y"], pr["Z"]
            if len(X) == 0:
                continue
            ok = ref.in_valid(X, Y) & ~ref.near_tie(X, Y)
            if not ok.any():
                continue
            if n in steps and 0 <= n:
                handover_alive = True
            for f, (U, V) in pr["vel"].items():
                try:
                    ur, vr = ref.velocity(X, Y, Z, n + f)
                except ValueError:
                    res.premise_left += 1
                    continue
                judged += 1
                res.feed(U, V)
                bad = ok & ((np.abs(U - ur) > tol) | (np.abs(V - vr) > tol) | ~np.isfinite(U) | ~np.isfinite(V))
                if bad.any():
                    p = int(np.nonzero(bad)[0][0])
                    tag = "C03.vel.frame" if f == 0.0 else "C03.vel.fraction"
                    res.add(Violation(tag, n, f"particle {p} frac={f}",
                                      f"u,v=({U[p]:.8g},{V[p]:.8g})", f"({ur[p]:.8g},{vr[p]:.8g}) tol {tol:.2g}"))
            for name in truth.scalar_names(sc):
                if name not in pr["vars"]:
                    continue
                got = np.asarray(pr["vars"][name], dtype=float)
                if len(got) != len(X):
                    continue
                lo, hi = ref.scalar_candidates(name, X, Y, Z, n)
                bad = ok & (np.abs(got - lo) > 1e-6) & (np.abs(got - hi) > 1e-6)
                if bad.any():
                    p = int(np.nonzero(bad)[0][0])
                    src = ref.scalar_any_frame(name, float(got[p])) if name != "w" else None
                    res.add(Violation("C03.scalar.frame", n, f"{name} particle {p}",
                                      f"{got[p]:.8g} (frame,level,j,i)={src}",
                                      f"{lo[p]:.8g} or {hi[p]:.8g} (frame {ref.latest_frame(n)})"))
        res.nontrivial = judged > 0 and handover_alive
    finally:
        world.rm_dir(run.dir)
    return res
