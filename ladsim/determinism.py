"""Determinism self-test: the same seed must give the same history digest

  * in two different worker processes of a 16-worker pool,
  * in a 3-worker pool,
  * in a fresh interpreter started with another PYTHONHASHSEED.

./check --selftest determinism            (all properties, 60 seeds each)
./check C08 --selftest determinism        (one property)
LADSIM_DET_N=400 raises the number of seeds per property.
"""

from __future__ import annotations

import json
import os
import subprocess
import sys
import tempfile
import time
from pathlib import Path

VERIF = Path(__file__).resolve().parents[1]


def _digest_case(args):
    from ladsim import runner

    pid, master, idx = args
    r = runner.run_case(pid, master, idx, "quick")
    return idx, r.get("digest"), r.get("harness_error")


def digests(pid: str, master: int, indices, jobs: int) -> dict:
    from ladsim import runner

    runner.warm_up(pid)
    out = {}
    with runner.make_pool(jobs) as pool:
        for idx, dg, err in pool.map(_digest_case, [(pid, master, i) for i in indices], chunksize=1):
            out[idx] = dg if not err else "ERR:" + err[:80]
    return out


def dump(pid: str, master: int, n: int, jobs: int, path: str) -> None:
    d = digests(pid, master, range(n), jobs)
    Path(path).write_text(json.dumps({str(k): v for k, v in d.items()}))


def main(pid, jobs: int) -> int:
    from ladsim import runner

    pids = [pid.upper()] if pid else runner.ALL_IDS
    n = int(os.environ.get("LADSIM_DET_N", "60"))
    master = int(os.environ.get("VERIF_SEED", "1"))
    bad = 0
    for p in pids:
        t0 = time.time()
        runs = []
        for label, j, hs in (("16 workers", 16, None), ("16 workers again", 16, None), ("3 workers", 3, None),
                             ("fresh interpreter, PYTHONHASHSEED=4242", 16, "4242"),
                             ("fresh interpreter, PYTHONHASHSEED=random", 8, "random")):
            with tempfile.NamedTemporaryFile(suffix=".json", delete=False) as f:
                path = f.name
            env = dict(os.environ)
            env["PYTHONHASHSEED"] = hs if hs else env.get("PYTHONHASHSEED", "0")
            if p == "C17":
                env["NUMBA_BOUNDSCHECK"] = "1"
            code = f"from ladsim import determinism; determinism.dump({p!r}, {master}, {n}, {j}, {path!r})"
            r = subprocess.run([sys.executable, "-c", code], env=env, cwd=VERIF, capture_output=True, text=True)
            if r.returncode:
                print(f"{p}: run '{label}' failed: {r.stderr[-400:]}")
                bad += 1
                continue
            runs.append((label, json.loads(Path(path).read_text())))
            os.unlink(path)
        ref_label, ref = runs[0]
        for label, d in runs[1:]:
            diff = [k for k in ref if d.get(k) != ref[k]]
            errs = [k for k, v in d.items() if str(v).startswith("ERR")]
            if diff or errs:
                bad += 1
                print(f"{p}: NONDETERMINISM between '{ref_label}' and '{label}': cases {diff[:8]} errors {errs[:4]}")
        print(f"{p}: {n} seeds x {len(runs)} executions agree: {bad == 0}  ({time.time() - t0:.0f}s)", flush=True)
    print("determinism self-test", "FAILED" if bad else "passed")
    return 2 if bad else 0
