"""Seed derivation: one integer decides everything.

Every random choice of the simulator is drawn from ``stream(seed, *labels)``,
a ``random.Random`` seeded with a blake2b hash of the master seed and the
labels.  ``random.Random`` (Mersenne twister seeded with an int) is stable
across processes, worker counts and PYTHONHASHSEED values.  Logging paths never
draw from a stream.
"""

from __future__ import annotations

import hashlib
import random


def derive(seed: int, *labels) -> int:
    h = hashlib.blake2b(digest_size=8)
    h.update(str(int(seed)).encode())
    for lab in labels:
        h.update(b"\x00")
        h.update(str(lab).encode())
    return int.from_bytes(h.digest(), "big")


class Stream(random.Random):
    """random.Random with a few helpers"""

    def chance(self, p: float) -> bool:
        return self.random() < p

    def pick(self, seq):
        return seq[self.randrange(len(seq))]

    def wpick(self, pairs):
        """pairs: [(value, weight), ...]"""
        tot = sum(w for _, w in pairs)
        r = self.random() * tot
        acc = 0.0
        for v, w in pairs:
            acc += w
            if r < acc:
                return v
        return pairs[-1][0]

    def rfloat(self, a: float, b: float, digits: int = 4) -> float:
        """uniform float rounded to a few digits (keeps replay files readable)"""
        return round(self.uniform(a, b), digits)


def stream(seed: int, *labels) -> Stream:
    return Stream(derive(seed, *labels))
