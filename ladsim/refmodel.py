"""Reference model of LADiM, written from the property statements (DESIGN appendix A).

Works from the scenario's ground truth (ladsim.truth), never from the files or
from LADiM's internals.  Plain numpy, per-particle arithmetic.
"""

from __future__ import annotations

import numpy as np

from ladsim import truth

TIE = 1e-9


class RefWorld:
    def __init__(self, sc) -> None:
        self.sc = sc
        self.sgn = truth.sgn(sc)
        self.mask = truth.mask_rho(sc)
        self.h = truth.bathymetry(sc)
        self.zr = truth.level_depths(sc)          # [N, jm, im]
        self.N = self.zr.shape[0]
        self.mu, self.mv = truth.face_masks(sc)
        self.dx, self.dy = truth.metric(sc)
        fs = truth.frame_steps(sc)
        self.order = sorted(range(len(fs)), key=lambda f: fs[f])   # frames in simulation order
        self.fsteps = [fs[f] for f in self.order]
        self._uv: dict[int, tuple[np.ndarray, np.ndarray]] = {}
        self._sc: dict[tuple[str, int], np.ndarray] = {}
        self.vmax = None

    # -- node values -------------------------------------------------------
    def frame_uv(self, f: int):
        """masked node values of frame f (file order index)"""
        if f not in self._uv:
            u, v = truth.truth_uv(self.sc, f)
            self._uv[f] = (u * self.mu[None], v * self.mv[None])
        return self._uv[f]

    def scale(self) -> float:
        if self.vmax is None:
            m = 0.0
            for f in range(len(self.fsteps)):
                u, v = self.frame_uv(f)
                m = max(m, float(np.abs(u).max()), float(np.abs(v).max()))
            self.vmax = m
        return self.vmax

    def bracket(self, t: float):
        """frames a, b (file-order indices) and weight w with field = (1-w)*F_a + w*F_b"""
        steps = self.fsteps
        k = int(np.searchsorted(steps, t, side="right")) - 1      # last frame with step <= t
        if k < 0:
            raise ValueError(f"no forcing frame at or before model step {t}")
        if steps[k] == t or k + 1 >= len(steps):
            if steps[k] != t:
                raise ValueError(f"no forcing frame after model step {t}")
            return self.order[k], self.order[k], 0.0
        w = (t - steps[k]) / (steps[k + 1] - steps[k])
        return self.order[k], self.order[k + 1], w

    def uv_fields(self, t: float):
        a, b, w = self.bracket(t)
        ua, va = self.frame_uv(a)
        if w == 0.0:
            return ua, va
        ub, vb = self.frame_uv(b)
        return (1 - w) * ua + w * ub, (1 - w) * va + w * vb

    def latest_frame(self, n: int) -> int:
        k = int(np.searchsorted(self.fsteps, n, side="right")) - 1
        if k < 0:
            raise ValueError("no frame at or before step")
        return self.order[k]

    # -- geometry ----------------------------------------------------------
    def cell(self, X, Y):
        return np.round(Y).astype(int), np.round(X).astype(int)

    def near_tie(self, X, Y) -> np.ndarray:
        fx = np.abs(X - np.floor(X) - 0.5)
        fy = np.abs(Y - np.floor(Y) - 0.5)
        return (fx < TIE) | (fy < TIE)

    def in_valid(self, X, Y, margin: float = 0.0) -> np.ndarray:
        xlo, xhi, ylo, yhi = truth.valid_region(self.sc)
        return (X > xlo + margin) & (X < xhi - margin) & (Y > ylo + margin) & (Y < yhi - margin)

    def at_sea(self, X, Y) -> np.ndarray:
        J, I = self.cell(X, Y)
        return self.mask[J, I] > 0

    def depth(self, X, Y) -> np.ndarray:
        J, I = self.cell(X, Y)
        return self.h[J, I]

    def metric(self, X, Y):
        J, I = self.cell(X, Y)
        return self.dx[J, I], self.dy[J, I]

    def tie_cells(self, x: float, y: float) -> list[tuple[int, int]]:
        """the cells (J, I) a position belongs to: one, or two/four when it lies on a cell edge/corner"""
        def cands(v):
            if abs(v - np.floor(v) - 0.5) < TIE:
                return [int(np.floor(v)), int(np.floor(v)) + 1]
            return [int(np.round(v))]
        jm, im = self.h.shape
        return [(j, i) for j in cands(y) for i in cands(x) if 0 <= j < jm and 0 <= i < im]

    def vertical(self, X, Y, Z, cells=None):
        """level pair (klo, khi) and weight a of klo for every particle: value = a*F[klo] + (1-a)*F[khi];
        cells = (J, I) overrides the cell whose depth column is used"""
        J, I = self.cell(X, Y) if cells is None else cells
        n = len(X)
        klo = np.zeros(n, dtype=int)
        khi = np.zeros(n, dtype=int)
        a = np.ones(n)
        near_level = np.zeros(n, dtype=bool)
        for p in range(n):
            zr = self.zr[:, J[p], I[p]]
            z = -Z[p]
            k = int(np.searchsorted(zr, z))
            if k == 0:          # below the lowest level: held constant (weight 1 on level 0)
                klo[p], khi[p], a[p] = 0, min(1, self.N - 1), 1.0
            elif k == self.N:   # above the top level: held constant (weight 1 on the top level)
                klo[p], khi[p], a[p] = max(self.N - 2, 0), self.N - 1, 0.0
            else:
                klo[p], khi[p] = k - 1, k
                a[p] = (zr[k] - z) / (zr[k] - zr[k - 1])
            if np.any(np.abs(zr - z) < 1e-9):
                near_level[p] = True
        return klo, khi, a, near_level

    # -- interpolation -----------------------------------------------------
    def _sample(self, F, xs, ys, klo, khi, a):
        """bilinear in (xs, ys) node coordinates of F[k, j, i], linear between levels"""
        i0 = np.floor(xs).astype(int)
        j0 = np.floor(ys).astype(int)
        p = xs - i0
        q = ys - j0
        jm, im = F.shape[1:]
        i1 = np.minimum(i0 + 1, im - 1)
        j1 = np.minimum(j0 + 1, jm - 1)

        def lev(jj, ii):
            return a * F[klo, jj, ii] + (1 - a) * F[khi, jj, ii]

        return ((1 - p) * (1 - q) * lev(j0, i0) + p * (1 - q) * lev(j0, i1)
                + (1 - p) * q * lev(j1, i0) + p * q * lev(j1, i1))

    def corner_bounds(self, F, xs, ys, klo, khi):
        i0 = np.floor(xs).astype(int)
        j0 = np.floor(ys).astype(int)
        jm, im = F.shape[1:]
        i1 = np.minimum(i0 + 1, im - 1)
        j1 = np.minimum(j0 + 1, jm - 1)
        vals = np.stack([F[k, jj, ii] for k in (klo, khi) for jj in (j0, j1) for ii in (i0, i1)])
        return vals.min(axis=0), vals.max(axis=0)

    def velocity(self, X, Y, Z, t: float, with_bounds: bool = False, vert=None):
        """velocity [m/s] in simulation direction at model time t (float model step);
        vert = (klo, khi, a) fixes the level pair and weight (e.g. those of the cell a step started in)"""
        X = np.asarray(X, dtype=float)
        Y = np.asarray(Y, dtype=float)
        Z = np.asarray(Z, dtype=float)
        U, V = self.uv_fields(t)
        if vert is not None:
            klo, khi, a = vert
        else:
            klo, khi, a, _ = self.vertical(X, Y, Z)
        u = self._sample(U, X - 0.5, Y, klo, khi, a)
        v = self._sample(V, X, Y - 0.5, klo, khi, a)
        if with_bounds:
            ub = self.corner_bounds(U, X - 0.5, Y, klo, khi)
            vb = self.corner_bounds(V, X, Y - 0.5, klo, khi)
            return self.sgn * u, self.sgn * v, ub, vb
        return self.sgn * u, self.sgn * v

    def scalar_candidates(self, name: str, X, Y, Z, n: int):
        """values of the particle's own cell at the two bracketing levels, latest frame <= step n"""
        f = self.latest_frame(n)
        key = (name, f)
        if key not in self._sc:
            self._sc[key] = truth.truth_scalar(self.sc, name, f)
        F = self._sc[key]
        J, I = self.cell(np.asarray(X, float), np.asarray(Y, float))
        klo, khi, _, near = self.vertical(np.asarray(X, float), np.asarray(Y, float), np.asarray(Z, float))
        lo, hi = F[klo, J, I].copy(), F[khi, J, I].copy()
        # a depth within 1e-9 m of an s-level is a tie between two brackets: not judged (NaN never differs)
        lo[near] = np.nan
        hi[near] = np.nan
        return lo, hi

    def scalar_any_frame(self, name: str, value: float):
        """which (frame, level, j, i) carries this identifying value (for diagnostics)"""
        jm, im = truth.dims(self.sc)
        off = {"temp": 0.0, "salt": 0.5}.get(name, 0.25)
        ident = int(round((value - 1.0 - off) / 0.0625))
        i = ident % im
        j = (ident // im) % jm
        k = (ident // (im * jm)) % self.N
        f = ident // (im * jm * self.N)
        return f, k, j, i


# --------------------------------------------------------------------------
# Runge-Kutta tableaux (the named members of each order)
# --------------------------------------------------------------------------

TABLEAUX = {
    "EF": {"euler": ([0.0], [[]], [1.0])},
    "RK2": {
        "midpoint": ([0.0, 0.5], [[], [0.5]], [0.0, 1.0]),
        "heun": ([0.0, 1.0], [[], [1.0]], [0.5, 0.5]),
        "ralston": ([0.0, 2 / 3], [[], [2 / 3]], [0.25, 0.75]),
    },
    "RK4": {
        "classic": ([0.0, 0.5, 0.5, 1.0], [[], [0.5], [0.0, 0.5], [0.0, 0.0, 1.0]],
                    [1 / 6, 1 / 3, 1 / 3, 1 / 6]),
        "three_eighths": ([0.0, 1 / 3, 2 / 3, 1.0], [[], [1 / 3], [-1 / 3, 1.0], [1.0, -1.0, 1.0]],
                          [1 / 8, 3 / 8, 3 / 8, 1 / 8]),
    },
}


def rk_displacement(vel, X, Y, Z, n: int, dt: float, dx, dy, tableau, clip=None):
    """displacement (in cells) of one step with the given tableau.

    vel(X, Y, Z, t) -> (u, v) in m/s; stage positions are optionally clipped to
    clip = (xmin, xmax, ymin, ymax) as the statement of C17 describes."""
    c, A, b = tableau
    ku, kv = [], []
    for s in range(len(c)):
        xs, ys = X.copy(), Y.copy()
        for r, ar in enumerate(A[s]):
            if ar:
                xs = xs + ar * dt * ku[r] / dx
                ys = ys + ar * dt * kv[r] / dy
        if clip is not None and s > 0:
            xs = np.clip(xs, clip[0], clip[1])
            ys = np.clip(ys, clip[2], clip[3])
        u, v = vel(xs, ys, Z, n + c[s])
        ku.append(u)
        kv.append(v)
    du = sum(bi * k for bi, k in zip(b, ku))
    dv = sum(bi * k for bi, k in zip(b, kv))
    return dt * du / dx, dt * dv / dy


# --------------------------------------------------------------------------
# release schedule (C04)
# --------------------------------------------------------------------------


def release_schedule(sc, first_step: int = 0, last_step: int | None = None) -> dict[int, list[dict]]:
    """model step -> rows due at that step (each row once; it yields row['mult'] particles).

    Window: start inclusive, stop exclusive.  Steps are counted in simulation direction
    from the scenario's start.  Continuous mode: ticks at first_file_step + k * freq."""
    rel = sc["release"]
    T = sc["time"]
    nsteps = int(T["nsteps"])
    extra = int(T.get("stop_extra", 0))
    # a row at step s is inside [start, stop) iff 0 <= s*dt < nsteps*dt + extra
    def in_window(s: int) -> bool:
        return 0 <= s and (s < nsteps or (s == nsteps and extra > 0))

    rows = rel["rows"]
    sched: dict[int, list[dict]] = {}
    if not rel.get("continuous"):
        for r in rows:
            if in_window(int(r["step"])):
                sched.setdefault(int(r["step"]), []).append(r)
    else:
        freq = int(rel["freq_steps"])
        file_steps = sorted({int(r["step"]) for r in rows})
        tick = file_steps[0]
        while in_window(tick) or tick < 0:
            if tick >= 0:
                latest = max(s for s in file_steps if s <= tick)
                sched[tick] = [r for r in rows if int(r["step"]) == latest]
            tick += freq
    return sched
