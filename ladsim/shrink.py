"""Delta-debugging minimiser over Scenario JSON.

A candidate simplification is kept when the property's oracle still reports a
violation with the same tag.  Greedy passes over a list of reductions until a
fixed point or the budget is reached.  Deterministic: no random choices.
"""

from __future__ import annotations

import copy


def _cp(sc):
    return copy.deepcopy(sc)


def _drop_scalar(sc, name):
    fl = sc["flow"]
    if name not in fl.get("scalars", []):
        return None
    c = _cp(sc)
    c["flow"]["scalars"] = [x for x in fl["scalars"] if x != name]
    if not c["flow"]["scalars"]:
        del c["flow"]["scalars"]
    c["output"]["ivars"].pop(name, None)
    if name == "temp":
        c.get("ibm", {}).pop("weight", None)
        c["output"]["ivars"].pop("weight", None)
    if name == "w":
        c.get("tracker", {}).pop("vertical_advection", None)
        c["flow"].pop("w", None)
    return c


def reductions(sc):
    """yield (name, candidate) pairs, simplest-first within each group"""
    if sc.get("world", "roms") != "roms" or "grid" not in sc:
        return      # analytic worlds have their own reductions (oracle module)
    rows = sc["release"]["rows"]
    n = len(rows)
    # --- release rows
    if n > 1:
        half = n // 2
        for name, keep in (("rows:first_half", rows[:half]), ("rows:second_half", rows[half:])):
            c = _cp(sc)
            c["release"]["rows"] = copy.deepcopy(keep)
            yield name, c
        for i in range(n):
            c = _cp(sc)
            del c["release"]["rows"][i]
            yield f"rows:drop{i}", c
    for i, r in enumerate(rows):
        if r.get("mult", 1) > 1:
            c = _cp(sc)
            c["release"]["rows"][i]["mult"] = 1
            yield f"rows:mult1:{i}", c
    # --- ibm
    ibm = sc.get("ibm") or {}
    if ibm:
        c = _cp(sc)
        c["ibm"] = {}
        for v in ("age", "weight", "dose"):
            c["output"]["ivars"].pop(v, None)
        yield "ibm:none", c
        for key in ("kills", "kill_pids", "deact", "act"):
            if ibm.get(key):
                c = _cp(sc)
                del c["ibm"][key]
                yield f"ibm:no_{key}", c
                for k in list(ibm[key]):
                    c = _cp(sc)
                    del c["ibm"][key][k]
                    yield f"ibm:{key}:drop{k}", c
        if ibm.get("lifetime") is not None:
            c = _cp(sc)
            del c["ibm"]["lifetime"]
            yield "ibm:no_lifetime", c
        if ibm.get("weight"):
            c = _cp(sc)
            del c["ibm"]["weight"]
            c["output"]["ivars"].pop("weight", None)
            yield "ibm:no_weight", c
        if ibm.get("dose"):
            c = _cp(sc)
            del c["ibm"]["dose"]
            c["output"]["ivars"].pop("dose", None)
            yield "ibm:no_dose", c
    # --- run length
    ns = sc["time"]["nsteps"]
    for m in sorted({ns // 2, ns - 1, ns - 2} - {ns}):
        if m >= 1:
            c = _cp(sc)
            c["time"]["nsteps"] = m
            c["release"]["rows"] = [r for r in c["release"]["rows"]] or c["release"]["rows"]
            yield f"nsteps:{m}", c
    # --- time decorations
    T = sc["time"]
    if T.get("stop_extra"):
        c = _cp(sc)
        del c["time"]["stop_extra"]
        yield "time:no_stop_extra", c
    if T.get("reference"):
        c = _cp(sc)
        del c["time"]["reference"]
        yield "time:no_reference", c
    if T["start"] != "2000-01-01T00:00:00":
        c = _cp(sc)
        c["time"]["start"] = "2000-01-01T00:00:00"
        yield "time:plain_start", c
    if T.get("reversed"):
        c = _cp(sc)
        del c["time"]["reversed"]
        offs = sc["frames"]["offsets"]
        c["frames"]["offsets"] = [-o for o in reversed(offs)]
        if c["frames"].get("split"):
            c["frames"]["split"] = list(reversed(c["frames"]["split"]))
        if c["frames"].get("per_file"):
            c["frames"]["per_file"] = list(reversed(c["frames"]["per_file"]))
        for k in ("amp_u", "amp_v"):
            if c["flow"].get(k):
                c["flow"][k] = list(reversed(c["flow"][k]))
        yield "time:forward", c
    # --- frames
    fr = sc["frames"]
    if fr.get("split") and len(fr["split"]) > 1:
        c = _cp(sc)
        del c["frames"]["split"]
        c["frames"].pop("per_file", None)
        yield "frames:one_file", c
    if fr.get("per_file"):
        c = _cp(sc)
        del c["frames"]["per_file"]
        yield "frames:common_packing", c
    if fr.get("storage") == "i2":
        c = _cp(sc)
        del c["frames"]["storage"]
        yield "frames:float", c
    offs = fr["offsets"]
    if len(offs) > 2:
        for i in range(len(offs)):
            c = _cp(sc)
            del c["frames"]["offsets"][i]
            for k in ("amp_u", "amp_v"):
                if c["flow"].get(k):
                    del c["flow"][k][i]
            w = c["flow"].get("w")
            if w and w.get("amp"):
                del w["amp"][i]
            if c["frames"].get("split"):
                # remove the frame from its file
                acc = 0
                for fi, m in enumerate(c["frames"]["split"]):
                    if i < acc + m:
                        c["frames"]["split"][fi] -= 1
                        break
                    acc += m
                if len([m for m in c["frames"]["split"] if m > 0]) != len(c["frames"]["split"]):
                    c["frames"].pop("per_file", None)
                c["frames"]["split"] = [m for m in c["frames"]["split"] if m > 0]
            if _covers(c):
                yield f"frames:drop{i}", c
    # --- grid
    g = sc["grid"]
    if g.get("subgrid"):
        c = _cp(sc)
        c["grid"]["subgrid"] = None
        yield "grid:no_subgrid", c
    if g.get("mask", "open") != "open":
        c = _cp(sc)
        c["grid"]["mask"] = "open"
        yield "grid:open", c
    if g.get("h", {}).get("kind", "flat") != "flat":
        c = _cp(sc)
        c["grid"]["h"] = {"kind": "flat", "h0": 100.0}
        for r in c["release"]["rows"]:
            r["Z"] = min(r["Z"], 100.0)
        v = c["grid"].get("vert", {})
        if v.get("hc", 0) > 100.0:
            v["hc"] = 5.0
        yield "grid:flat", c
    m = g.get("metric", {})
    if m.get("kind") == "vary":
        c = _cp(sc)
        c["grid"]["metric"] = {"kind": "const", "dx": m["dx"], "dy": m["dx"] * m.get("ratio", 1.0)}
        yield "grid:const_metric", c
    if m.get("kind") == "const" and m.get("dy", m["dx"]) != m["dx"]:
        c = _cp(sc)
        c["grid"]["metric"] = {"kind": "const", "dx": m["dx"], "dy": m["dx"]}
        yield "grid:isotropic", c
    v = g.get("vert", {})
    if v.get("N", 1) > 1:
        c = _cp(sc)
        c["grid"]["vert"]["N"] = 1
        c["flow"].pop("levels", None)
        yield "grid:N1", c
    if v.get("source") == "vinfo":
        c = _cp(sc)
        c["grid"]["vert"]["source"] = "file"
        yield "grid:vert_from_file", c
    if g.get("lonlat", {}).get("kind") == "stereo":
        c = _cp(sc)
        del c["grid"]["lonlat"]
        yield "grid:linear_lonlat", c
    # --- flow
    fl = sc["flow"]
    for name in list(fl.get("scalars", [])):
        c = _drop_scalar(sc, name)
        if c is not None:
            yield f"flow:no_{name}", c
    if fl.get("levels"):
        c = _cp(sc)
        del c["flow"]["levels"]
        yield "flow:no_levels", c
    if fl.get("amp_u") or fl.get("amp_v"):
        c = _cp(sc)
        c["flow"].pop("amp_u", None)
        c["flow"].pop("amp_v", None)
        yield "flow:steady", c
    if fl.get("kind") not in ("const",):
        c = _cp(sc)
        keep = {k: fl[k] for k in ("amp_u", "amp_v", "levels", "scalars", "w") if k in fl}
        u0 = fl.get("u0", 0.0) or 0.05
        v0 = fl.get("v0", 0.0) or 0.03
        c["flow"] = {"kind": "const", "u0": u0, "v0": v0, **keep}
        yield "flow:const", c
    # --- tracker
    tr = sc.get("tracker", {})
    if tr.get("advection") in ("RK2", "RK4"):
        c = _cp(sc)
        c["tracker"]["advection"] = "EF"
        yield "tracker:EF", c
    for k in ("diffusion", "vertdiff", "vertical_advection"):
        if tr.get(k):
            c = _cp(sc)
            del c["tracker"][k]
            yield f"tracker:no_{k}", c
    # --- output
    out = sc["output"]
    if out.get("numrec"):
        c = _cp(sc)
        c["output"]["numrec"] = 0
        yield "output:no_numrec", c
    if out.get("filename", "out.nc") != "out.nc":
        c = _cp(sc)
        del c["output"]["filename"]
        yield "output:plain_name", c
    if out.get("layout") == "dense":
        c = _cp(sc)
        del c["output"]["layout"]
        yield "output:sparse", c
    if out["period"] > 1:
        for pnew in sorted({1, out["period"] // 2, out["period"] - 1} - {0, out["period"]}):
            c = _cp(sc)
            c["output"]["period"] = pnew
            yield f"output:period{pnew}", c
    if out.get("pvars"):
        c = _cp(sc)
        del c["output"]["pvars"]
        c["output"].pop("release_time_pvar", None)
        yield "output:no_pvars", c
    if "lon" in out["ivars"]:
        c = _cp(sc)
        c["output"]["ivars"].pop("lon", None)
        c["output"]["ivars"].pop("lat", None)
        yield "output:no_lonlat", c
    for name in list(out["ivars"]):
        if name not in ("pid", "X", "Y", "Z", "tag", "lon", "lat"):
            c = _cp(sc)
            del c["output"]["ivars"][name]
            yield f"output:drop_{name}", c
    if any(t == "f4" for t in out["ivars"].values()):
        c = _cp(sc)
        c["output"]["ivars"] = {k: ("f8" if t == "f4" else t) for k, t in out["ivars"].items()}
        yield "output:f8", c
    # --- release decorations
    rel = sc["release"]
    if rel.get("continuous"):
        c = _cp(sc)
        del c["release"]["continuous"]
        c["release"].pop("freq_steps", None)
        yield "release:discrete", c
    if not rel.get("header", True):
        c = _cp(sc)
        c["release"]["header"] = True
        yield "release:header", c
    for key in ("col_order", "time_styles"):
        if rel.get(key):
            c = _cp(sc)
            del c["release"][key]
            yield f"release:no_{key}", c
    if sc["frames"].get("scalar_packed"):
        c = _cp(sc)
        del c["frames"]["scalar_packed"]
        yield "frames:scalar_float", c
    for key in ("h_store", "staggered_masks"):
        if sc["grid"].get(key):
            c = _cp(sc)
            del c["grid"][key]
            yield f"grid:no_{key}", c
    if sc.get("native_times"):
        c = _cp(sc)
        del c["native_times"]
        yield "time:strings", c
    if sc["frames"].get("land_fill"):
        c = _cp(sc)
        del c["frames"]["land_fill"]
        yield "frames:no_land_fill", c
    if sc["frames"].get("time_units_per_file"):
        c = _cp(sc)
        del c["frames"]["time_units_per_file"]
        yield "frames:same_units_in_all_files", c
    if sc["frames"].get("time_units", "epoch") != "epoch":
        c = _cp(sc)
        c["frames"]["time_units"] = "epoch"
        yield "frames:epoch_units", c
    for col in list(rel.get("extra", [])):
        if col["name"] != "tag":
            c = _cp(sc)
            c["release"]["extra"] = [x for x in rel["extra"] if x["name"] != col["name"]]
            c["release"].pop("col_order", None)
            c["output"]["ivars"].pop(col["name"], None)
            if c["output"].get("pvars"):
                c["output"]["pvars"].pop(col["name"], None)
            yield f"release:drop_col_{col['name']}", c
    # --- spelling
    if sc.get("spelling", "yaml2") != "yaml2":
        c = _cp(sc)
        c["spelling"] = "yaml2"
        yield "spelling:yaml2", c
    if sc.get("spell"):
        c = _cp(sc)
        del c["spell"]
        yield "spelling:plain_periods", c


def _covers(sc) -> bool:
    offs = sc["frames"]["offsets"]
    T = sc["time"]
    n = T["nsteps"] + (1 if T.get("stop_extra") else 0)
    lo, hi = (-n, 0) if T.get("reversed") else (0, n)
    return len(offs) >= 2 and offs[0] <= lo and offs[-1] >= hi


def shrink(sc, still_fails, extra_reductions=None, budget: int = 250):
    """still_fails(candidate) -> bool.  Returns (minimised scenario, evaluations used)."""
    used = 0
    cur = sc
    progress = True
    while progress and used < budget:
        progress = False
        gens = [reductions]
        if extra_reductions is not None:
            gens.insert(0, extra_reductions)
        for g in gens:
            tried: set[str] = set()
            restart = True
            while restart and used < budget:
                restart = False
                for name, cand in g(cur):
                    if name in tried:
                        continue
                    tried.add(name)
                    used += 1
                    ok = False
                    try:
                        ok = still_fails(cand)
                    except Exception:  # noqa: BLE001 - an invalid candidate is just rejected
                        ok = False
                    if ok:
                        cur = cand
                        progress = True
                        restart = True
                        tried = {t for t in tried if not t.startswith(("rows:", "frames:drop", "nsteps:", "ibm:"))}
                        break
                    if used >= budget:
                        break
    return cur, used
