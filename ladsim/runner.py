"""Runner: seeded search over simulated runs, evidence, replay, minimisation."""

from __future__ import annotations

import argparse
import concurrent.futures as cf
import faulthandler
import importlib
import json
import multiprocessing
import os
import signal
import sys
import time
import traceback
from collections import Counter
from pathlib import Path

VERIF = Path(__file__).resolve().parents[1]
VERSION = "0.3"

ALL_IDS = ["C01", "C02", "C03", "C04", "C05", "C06", "C07", "C08", "C09", "C10", "C11",
           "C13", "C14", "C15", "C16", "C17", "C18", "C19", "C20"]


def load_oracle(pid: str):
    return importlib.import_module(f"ladsim.oracles.{pid.lower()}")


# --------------------------------------------------------------------------
# known findings
# --------------------------------------------------------------------------


def load_known(pid: str) -> tuple[list[dict], list[str]]:
    """known: property=C14 tag=C14.other_death needs=a,b forbid=c site=x :: text"""
    known, fixed = [], []
    p = VERIF / "KNOWN_FINDINGS.txt"
    if not p.exists():
        return known, fixed
    for line in p.read_text().splitlines():
        line = line.strip()
        if not line or line.startswith("#"):
            continue
        kind, _, rest = line.partition(":")
        head, _, text = rest.partition("::")
        fields = dict(tok.split("=", 1) for tok in head.split() if "=" in tok)
        if fields.get("property") != pid:
            continue
        if kind == "known":
            known.append({
                "tag": fields.get("tag", ""),
                "site": fields.get("site", ""),
                "needs": [x for x in fields.get("needs", "").split(",") if x],
                "forbid": [x for x in fields.get("forbid", "").split(",") if x],
                "text": text.strip(),
            })
        elif kind == "fixed":
            fixed.append(rest.strip())
    return known, fixed


def match_known(known: list[dict], viol: dict, feats: set[str]) -> dict | None:
    for k in known:
        t = k["tag"]
        if t.endswith("*"):
            if not viol["tag"].startswith(t[:-1]):
                continue
        elif t != viol["tag"]:
            continue
        if k["site"] and k["site"] not in (viol.get("site") or ""):
            continue
        if not set(k["needs"]) <= feats:
            continue
        if set(k["forbid"]) & feats:
            continue
        return k
    return None


# --------------------------------------------------------------------------
# worker side
# --------------------------------------------------------------------------

_ORACLE = None
_TIER = "quick"


def _alarm(signum, frame):
    raise TimeoutError("simulated case exceeded its wall-clock guard")


def run_case(pid: str, master: int, idx: int, tier: str, want_sc: bool = False) -> dict:
    from ladsim import gen, rng

    orc = load_oracle(pid)
    seed_i = rng.derive(master, pid, idx)
    out = {"idx": idx, "seed_i": seed_i}
    signal.signal(signal.SIGALRM, _alarm)
    signal.alarm(int(getattr(orc, "CASE_TIMEOUT", 120)))
    try:
        sc = orc.generate(seed_i, tier, idx)
        res = orc.execute(sc)
        out.update(res.to_json())
        out["features"] = sorted(orc.features(sc)) if hasattr(orc, "features") else sorted(gen.features(sc)) if "time" in sc else []
        if res.violations or want_sc or idx < 3:
            out["scenario"] = sc
    except Exception as e:  # noqa: BLE001
        out["harness_error"] = f"{type(e).__name__}: {e}\n" + traceback.format_exc()[-1500:]
        out.setdefault("violations", [])
    finally:
        signal.alarm(0)
    return out


def exec_scenario(pid: str, sc: dict) -> dict:
    orc = load_oracle(pid)
    signal.signal(signal.SIGALRM, _alarm)
    signal.alarm(int(getattr(orc, "CASE_TIMEOUT", 120)))
    try:
        res = orc.execute(sc)
        return res.to_json()
    finally:
        signal.alarm(0)


def shrink_case(pid: str, sc: dict, tag: str, budget: int) -> dict:
    from ladsim import shrink

    orc = load_oracle(pid)

    def still_fails(c) -> bool:
        r = orc.execute(c)
        return any(v.tag == tag for v in r.violations)

    extra = getattr(orc, "reductions", None)
    base = getattr(orc, "base_reductions", shrink.reductions)
    if base is not shrink.reductions:
        # oracle with its own scenario format
        small, used = _shrink_custom(sc, still_fails, base, budget)
    else:
        small, used = shrink.shrink(sc, still_fails, extra, budget)
    res = orc.execute(small)
    vs = [v.to_json() for v in res.violations if v.tag == tag]
    return {"scenario": small, "used": used, "violation": vs[0] if vs else None,
            "digest": res.hexdigest(),
            "all_tags": sorted({v.tag for v in res.violations})}


def _shrink_custom(sc, still_fails, red, budget):
    used, cur, progress = 0, sc, True
    while progress and used < budget:
        progress = False
        for _name, cand in red(cur):
            used += 1
            try:
                ok = still_fails(cand)
            except Exception:  # noqa: BLE001
                ok = False
            if ok:
                cur, progress = cand, True
                break
            if used >= budget:
                break
    return cur, used


# --------------------------------------------------------------------------
# parent side
# --------------------------------------------------------------------------


def warm_up(pid: str) -> None:
    """compile the numba kernels once in the parent; forked workers inherit them"""
    orc = load_oracle(pid)
    if hasattr(orc, "warm_up"):
        orc.warm_up()
        return
    from ladsim import driver, gen, world

    for adv, seed in (("RK4", 11), ("RK2", 12)):
        sc = gen.gen_scenario(seed, gen.profile(nsteps=(3, 3), p_reversed=0, p_ibm=0, p_land=0,
                                                p_temp=1.0, p_subgrid=0))
        sc["tracker"] = {"advection": adv}
        run = driver.run_scenario(sc, probe_fracs=(0, 0.5))
        world.rm_dir(run.dir)


def make_pool(jobs: int):
    ctx = multiprocessing.get_context("fork")
    return cf.ProcessPoolExecutor(max_workers=jobs, mp_context=ctx)


def run_check(pid: str, tier: str, master: int, jobs: int, runs: int | None,
              budget: float | None) -> int:
    t0 = time.time()
    orc = load_oracle(pid)
    tiers = orc.TIERS[tier]
    n_runs = runs if runs is not None else tiers["runs"]
    budget = budget if budget is not None else tiers["budget_s"]
    print(f"VERIF_SEED={master} property={pid} tier={tier} runs<={n_runs} budget={budget}s jobs={jobs}",
          flush=True)
    from ladsim import driver

    ladim_path = driver.check_repo_root()
    known, fixed = load_known(pid)
    faulthandler.dump_traceback_later(max(600, budget * 6), exit=True)
    warm_up(pid)
    t_warm = time.time() - t0

    results: list[dict] = []
    harness_errors: list[str] = []
    indices = list(orc.case_indices(tier, n_runs)) if hasattr(orc, "case_indices") else list(range(n_runs))
    exhaustive = bool(getattr(orc, "EXHAUSTIVE", {}).get(tier, False))
    cut_short = False
    with make_pool(jobs) as pool:
        pending = {}
        it = iter(indices)
        deadline = t0 + budget

        def submit_more():
            while len(pending) < jobs * 2:
                try:
                    i = next(it)
                except StopIteration:
                    return False
                pending[pool.submit(run_case, pid, master, i, tier)] = i
            return True

        more = submit_more()
        while pending:
            done, _ = cf.wait(list(pending), timeout=5, return_when=cf.FIRST_COMPLETED)
            for fut in done:
                i = pending.pop(fut)
                try:
                    results.append(fut.result())
                except Exception as e:  # noqa: BLE001
                    harness_errors.append(f"case {i}: worker failed: {type(e).__name__}: {e}")
            if time.time() < deadline:
                if more:
                    more = submit_more()
            else:
                if more and next(it, None) is not None:
                    cut_short = True
                more = False
        results.sort(key=lambda r: r["idx"])

        if os.environ.get("LADSIM_DEBUG"): print("PHASE main_done", round(time.time()-t0,1), flush=True)
        # determinism sample: re-execute a few cases in another worker
        sample = [r for r in results if not r.get("harness_error")][:: max(1, len(results) // 12)][:12]
        futs = {pool.submit(run_case, pid, master, r["idx"], tier): r for r in sample}
        for fut, r in futs.items():
            try:
                again = fut.result(timeout=300)
                if again.get("digest") != r.get("digest"):
                    harness_errors.append(
                        f"NONDETERMINISM case {r['idx']}: digest {r.get('digest')} vs {again.get('digest')}")
            except Exception as e:  # noqa: BLE001
                harness_errors.append(f"determinism re-run {r['idx']}: {type(e).__name__}: {e}")

        for r in results:
            if r.get("harness_error"):
                harness_errors.append(f"case {r['idx']} seed_i={r['seed_i']}: {r['harness_error']}")

        # ---- violations: group by tag, minimise one representative per tag
        if os.environ.get("LADSIM_DEBUG"): print("PHASE determinism_done", round(time.time()-t0,1), flush=True)
        # every single violation is matched against the listed known findings first (by its own
        # tag, call site / situation and the features of its case); only the rest is minimised and reported
        by_tag: dict[str, list[dict]] = {}
        all_tags: Counter = Counter()
        matched_known: Counter = Counter()
        for r in results:
            seen_tags = set()
            for v in r.get("violations", []):
                all_tags[v["tag"]] += 1
                k = match_known(known, v, set(r.get("features", [])))
                if k is not None:
                    matched_known[k["text"]] += 1
                    continue
                if v["tag"] not in seen_tags:
                    seen_tags.add(v["tag"])
                    by_tag.setdefault(v["tag"], []).append(r)
        reports = []
        shrink_budget = tiers.get("shrink", 150)
        futs = {}
        for tag, rs in sorted(by_tag.items()):
            # up to two representatives per tag (different feature sets help known-finding matching)
            reps = rs[:1]
            for r in rs[1:]:
                if set(r["features"]) != set(reps[0]["features"]):
                    reps.append(r)
                    break
            for r in reps[: tiers.get("reps_per_tag", 2)]:
                futs[pool.submit(shrink_case, pid, r["scenario"], tag, shrink_budget)] = (tag, r)
        for fut, (tag, r) in futs.items():
            try:
                sh = fut.result(timeout=900)
            except Exception as e:  # noqa: BLE001
                harness_errors.append(f"shrink {tag} case {r['idx']}: {type(e).__name__}: {e}")
                continue
            if sh["violation"] is None:
                harness_errors.append(f"shrink lost the violation {tag} case {r['idx']}")
                continue
            reports.append({"tag": tag, "case": r, "min": sh, "count": len(by_tag[tag])})
        if os.environ.get("LADSIM_DEBUG"): print("PHASE shrink_done", round(time.time()-t0,1), flush=True)
        # replay each minimised scenario once more in another process
        futs = {pool.submit(exec_scenario, pid, rep["min"]["scenario"]): rep for rep in reports}
        for fut, rep in futs.items():
            try:
                again = fut.result(timeout=300)
                same = any(v["tag"] == rep["tag"] for v in again["violations"]) and again["digest"] == rep["min"]["digest"]
                if not same:
                    harness_errors.append(f"REPLAY-MISMATCH for {rep['tag']} (case {rep['case']['idx']})")
            except Exception as e:  # noqa: BLE001
                harness_errors.append(f"replay of minimised {rep['tag']}: {type(e).__name__}: {e}")

    # ---- classify
    from ladsim import gen

    exit_code = 0
    violation_lines = []
    rep_dir = Path(os.environ.get("LADSIM_REPLAY_DIR", VERIF / "replays")) / pid
    feats_fn = getattr(orc, "features", None) or (lambda sc: gen.features(sc) if "time" in sc else set())
    for rep in sorted(reports, key=lambda x: (x["tag"], x["case"]["idx"])):
        msc = rep["min"]["scenario"]
        feats = set(feats_fn(msc))
        k = match_known(known, rep["min"]["violation"], feats)
        replay = {
            "property": pid, "tier": tier, "master_seed": master, "run_index": rep["case"]["idx"],
            "seed_i": rep["case"]["seed_i"], "scenario": msc, "violation": rep["min"]["violation"],
            "features": sorted(feats), "history_digest": rep["min"]["digest"],
            "original_scenario": rep["case"]["scenario"], "occurrences_in_batch": rep["count"],
            "shrink_evaluations": rep["min"]["used"], "ladsim_version": VERSION,
        }
        if k is not None:      # the minimised case turned out to be a listed finding
            matched_known[k["text"]] += 1
            continue
        rep_dir.mkdir(parents=True, exist_ok=True)
        path = rep_dir / f"{master}-{rep['case']['idx']}-{rep['tag'].replace('/', '_').replace(':', '_')}.json"
        path.write_text(json.dumps(replay, indent=1, default=str))
        v = rep["min"]["violation"]
        print(f"  violated: {v['tag']} step={v['step']} {v['subject']}: observed {v['observed']} expected {v['expected']}"
              f" ({rep['count']} cases; features {sorted(feats)})", flush=True)
        violation_lines.append(f"VIOLATION property={pid} replay={path}")
        exit_code = 1
    for k in known:
        print(f"KNOWN-FINDING: property={pid} {k['text']}" + (f" [matched {matched_known[k['text']]} cases]" if matched_known[k["text"]] else " [not triggered in this batch]"))
    for line in violation_lines:
        print(line)

    # ---- evidence
    ok_results = [r for r in results if not r.get("harness_error")]
    nontriv = {r["history_key"] + "|" + ",".join(r.get("features", [])) for r in ok_results if r.get("nontrivial")}
    probes: Counter = Counter()
    faults: Counter = Counter()
    abort_reasons: Counter = Counter()
    for r in ok_results:
        probes.update(r.get("probes", {}))
        faults.update(r.get("faults", {}))
        abort_reasons.update(r.get("notes", []))
    wall = time.time() - t0
    n_eval = len(ok_results)
    samples = []
    for r in ok_results[:3]:
        samples.append({"run_index": r["idx"], "seed_i": r["seed_i"], "scenario": r.get("scenario"),
                        "violations": r["violations"], "nontrivial": r["nontrivial"],
                        "digest": r["digest"]})
    ev = {
        "property_id": pid, "tier": tier, "seed": master, "level": orc.LEVEL,
        "coverage": {
            "evaluations": n_eval,
            "distinct_nontrivial": len(nontriv),
            "rule": orc.RULE,
            "samples": samples,
            "exhaustive": bool(exhaustive and not cut_short),
            "executions_of_ladim": sum(r.get("executions", 0) for r in ok_results),
            "model_steps": sum(r.get("model_steps", 0) for r in ok_results),
            "model_time_s": sum(r.get("model_time_s", 0) for r in ok_results),
            "particle_steps": sum(r.get("particle_steps", 0) for r in ok_results),
            "runs_per_hour": int(n_eval / max(wall - t_warm, 1e-3) * 3600),
            "fault_counts": dict(sorted(faults.items())),
            "probes": dict(sorted(probes.items())),
            "aborted_foreign": sum(r.get("aborted_foreign", 0) for r in ok_results),
            "exceptions_of_code_under_test": dict(abort_reasons.most_common(12)),
            "premise_left": sum(r.get("premise_left", 0) for r in ok_results),
            "cut_short_by_budget": cut_short,
            "violation_tags": dict(sorted(all_tags.items())),
            "violation_tags_not_explained_by_known_findings": {t: len(rs) for t, rs in sorted(by_tag.items())},
            "known_findings_matched": dict(matched_known),
            "fixed_findings_on_record": fixed,
            "components": getattr(orc, "COMPONENTS", {}),
            "repo_root": driver.REPO_ROOT, "ladim_file": ladim_path,
            "python": sys.version.split()[0], "hashseed": os.environ.get("PYTHONHASHSEED", "random"),
            "jobs": jobs, "ladsim_version": VERSION,
            "seed_derivation": "seed_i = blake2b(VERIF_SEED, property, run_index)",
        },
        "assumptions": list(getattr(orc, "ASSUMPTIONS", [])),
        "wall_s": round(wall, 2),
        "violations": len(violation_lines),
    }
    ev_dir = Path(os.environ.get("LADSIM_EVIDENCE_DIR", VERIF / "evidence"))   # mutant runs write elsewhere
    ev_dir.mkdir(parents=True, exist_ok=True)
    (ev_dir / f"{pid}.json").write_text(json.dumps(ev, indent=1, default=str))

    # ---- harness health
    if harness_errors:
        for h in harness_errors[:10]:
            print("HARNESS-ERROR:", h.strip().replace("\n", "\n    "), flush=True)
        if exit_code == 0:
            exit_code = 2
    min_nontrivial = tiers.get("min_nontrivial", 2)
    if len(nontriv) < min_nontrivial and exit_code == 0:
        print(f"INCONCLUSIVE: only {len(nontriv)} distinct non-trivial cases (need {min_nontrivial})")
        exit_code = 2
    aborted = sum(1 for r in ok_results if r.get("aborted_foreign"))
    if ok_results and aborted > 0.75 * len(ok_results) and exit_code == 0:
        print(f"INCONCLUSIVE: {aborted} of {len(ok_results)} cases aborted by a crash outside the property's anchors")
        exit_code = 2
    if tier == "thorough" and exit_code == 0:
        for pr in getattr(orc, "REQUIRED_PROBES", []):
            if probes.get(pr, 0) == 0:
                print(f"INCONCLUSIVE: probe {pr} never fired in the thorough tier")
                exit_code = 2
    print(f"{pid}: {n_eval} cases, {len(nontriv)} distinct non-trivial, {len(by_tag)} violation tags, "
          f"{sum(matched_known.values())} known-finding cases, wall {wall:.1f}s, exit {exit_code}", flush=True)
    faulthandler.cancel_dump_traceback_later()
    try:
        from ladsim import world as _world

        _world.sweep_dead()
    except Exception:  # noqa: BLE001
        pass
    return exit_code


def replay(pid: str, path: str) -> int:
    from ladsim import driver

    driver.check_repo_root()
    data = json.loads(Path(path).read_text())
    if data.get("property") != pid:
        print(f"replay file is for {data.get('property')}, not {pid}")
        return 2
    warm_up(pid)
    res = exec_scenario(pid, data["scenario"])
    want = data["violation"]
    hit = [v for v in res["violations"] if v["tag"] == want["tag"]]
    if hit and res["digest"] == data["history_digest"] and \
            (hit[0]["step"], hit[0]["subject"]) == (want["step"], want["subject"]):
        v = hit[0]
        print(f"  reproduced: {v['tag']} step={v['step']} {v['subject']}: observed {v['observed']} expected {v['expected']}")
        print(f"VIOLATION property={pid} replay={path}")
        return 1
    if hit:
        print(f"  violation {want['tag']} reproduced, but with a different history digest or location "
              f"({res['digest']} vs {data['history_digest']}): the code under test differs from the recording")
        print(f"VIOLATION property={pid} replay={path}")
        return 1
    print(f"NOT-REPRODUCED: {want['tag']} does not occur on this tree (tags now: {sorted({v['tag'] for v in res['violations']})})")
    return 2 if res["violations"] else 0


def main(argv=None) -> int:
    ap = argparse.ArgumentParser()
    ap.add_argument("pid", nargs="?")
    ap.add_argument("--tier", default=os.environ.get("VERIF_TIER", "quick"), choices=["quick", "thorough"])
    ap.add_argument("--replay")
    ap.add_argument("--runs", type=int)
    ap.add_argument("--budget", type=float)
    ap.add_argument("--jobs", type=int, default=int(os.environ.get("LADSIM_JOBS", os.cpu_count() or 4)))
    ap.add_argument("--setup", action="store_true")
    ap.add_argument("--selftest")
    ap.add_argument("--validate-evidence", action="store_true")
    a = ap.parse_args(argv)
    master = int(os.environ.get("VERIF_SEED", "1"))
    if a.setup:
        from ladsim import selftest
        return selftest.setup()
    if a.selftest:
        from ladsim import selftest
        return selftest.run(a.selftest, a.pid, a.jobs)
    if a.validate_evidence:
        from ladsim import selftest
        return selftest.validate_evidence()
    if not a.pid:
        ap.error("property id required")
    pid = a.pid.upper()
    if a.replay:
        return replay(pid, a.replay)
    return run_check(pid, a.tier, master, a.jobs, a.runs, a.budget)


if __name__ == "__main__":
    sys.exit(main())
