#!/bin/bash
# tools/keep_seed.sh <seed worktree> <id> <property> <batch text>: verify a seeded change, then store it under seeded/<id>/
src=$1; id=$2; prop=$3; batch=$4
out=$(bash "$(dirname "$0")/verify_seed.sh" "$src" "$id" "$prop"); echo "$out"
case "$out" in *"without=0 with=1"*"5 failed, 84 passed, 6 skipped"*) ;; *) echo "$id: NOT confirmed, not kept"; exit 1;; esac
d=$(dirname "$0")/../seeded/$id; mkdir -p $d
cp $src/SEED/patch.diff $src/SEED/demo.py $d/; cp $src/SEED/NOTES.md $d/ 2>/dev/null
cat > $d/meta.json <<J
{
 "property": "$prop",
 "id": "$id",
 "source": "independent sub-agent given only the property text and a scratch worktree ($batch)",
 "needs": "see NOTES.md",
 "verified": "tools/verify_seed.sh in a fresh scratch worktree: demo.py exits 0 without and 1 with the patch; pytest unchanged (5 failed, 84 passed, 6 skipped)",
 "checks": [
  "$prop"
 ]
}
J
echo "$id kept"
