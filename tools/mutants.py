#!/usr/bin/env python3
"""Run checks against a mutated scratch copy of /repo (never touches /repo's working tree).

  tools/mutants.py revert:<commit>  C03 C07 ...      reverse of a fix commit
  tools/mutants.py <patch.diff>     C03 ...          a seeded change
  tools/mutants.py seeded                             every /verif/seeded/*/patch.diff against the checks in its meta.json
Options: --budget S (per check, default 60), --all (run every check), --keep-evidence
Prints one line per (mutant, check): exit code and the VIOLATION lines.
"""
import json
import os
import subprocess
import sys
import tempfile
from pathlib import Path

VERIF = Path(__file__).resolve().parents[1]
ALL = ["C01", "C02", "C03", "C04", "C05", "C06", "C07", "C08", "C09", "C10", "C11", "C13", "C14", "C15", "C16",
       "C17", "C18", "C19", "C20"]


def sh(cmd, **kw):
    return subprocess.run(cmd, shell=True, text=True, capture_output=True, **kw)


def run_mutant(spec: str, checks, budget: int):
    wt = Path(tempfile.mkdtemp(prefix="ladsim-mut-", dir="/tmp"))
    wt.rmdir()
    r = sh(f"git -C /repo worktree add -q --detach {wt} HEAD")
    if r.returncode:
        print("worktree failed", r.stderr)
        return {}
    out = {}
    try:
        if spec.startswith("revert:"):
            r = sh(f"git -C {wt} revert --no-edit -n {spec[7:]}")
        else:
            r = sh(f"git -C {wt} apply {Path(spec).resolve()}")
        if r.returncode:
            print(f"{spec}: could not apply: {r.stderr.strip()[:300]}")
            return {}
        env = dict(os.environ, LADSIM_REPO=str(wt), LADSIM_EVIDENCE_DIR=str(wt / "_evidence"),
                   LADSIM_REPLAY_DIR=str(wt / "_replays"))
        for c in checks:
            r = subprocess.run(f"./check {c} --tier quick --budget {budget}", shell=True, text=True,
                               capture_output=True, cwd=VERIF, env=env)
            viol = [ln for ln in r.stdout.splitlines() if ln.startswith(("VIOLATION", "  violated", "HARNESS", "INCONCLUSIVE"))]
            out[c] = r.returncode
            tags = sorted({ln.split()[1] for ln in viol if ln.startswith("  violated")})
            print(f"{spec:50s} {c}: exit {r.returncode} {' '.join(tags)[:200]}")
            if r.returncode not in (0, 1):
                print("    " + "\n    ".join(viol[:4]))
    finally:
        sh(f"git -C /repo worktree remove --force {wt}")
    return out


def main():
    args = sys.argv[1:]
    budget = 60
    if "--budget" in args:
        i = args.index("--budget")
        budget = int(args[i + 1])
        del args[i:i + 2]
    run_all = "--all" in args
    args = [a for a in args if a != "--all"]
    if args and args[0] == "seeded":
        only = args[1:]
        for d in sorted((VERIF / "seeded").iterdir()):
            meta = d / "meta.json"
            if not meta.exists() or (only and d.name not in only):
                continue
            m = json.loads(meta.read_text())
            checks = ALL if run_all else m.get("checks", [m["property"]])
            res = run_mutant(str(d / "patch.diff"), checks, budget)
            caught = [c for c, rc in res.items() if rc == 1]
            print(f"== {d.name}: breaks {m['property']}; caught by {caught or 'NOTHING'}")
        return
    spec, checks = args[0], args[1:]
    if run_all or not checks:
        checks = ALL
    run_mutant(spec, checks, budget)


if __name__ == "__main__":
    main()
