#!/usr/bin/env python3
"""Regenerate MANIFEST.json from the table below (run from /verif)."""
import json
from pathlib import Path

VERIF = Path(__file__).resolve().parents[1]

# id -> (level, technique, level text, level note, design ref)
WM = "deterministic whole-model simulation"
CHECKS = {
    "C01": ("exploration", WM + ": one-step refinement against named RK tableaux fed with the forcing's own velocity() and with the ground-truth forcing, under recording shims; convergence order on analytic plug-in worlds (dt, dt/2, dt/4 vs exact flow map); helper functions under a user time loop",
            "Each seeded case runs the real tracker inside the stepping model and compares every step with the displacement the selected scheme prescribes, computed from the velocities the real forcing supplies at the stage positions and fractional times and the ground-truth spacing; order of accuracy is measured against exact flow maps. Sampling of fields, metrics, time steps and positions; no fault or schedule dimension exists for this property, the simulator contributes the stepping system, the clock-dependent stage times and the reference model.",
            "Trusts the exact flow maps of the analytic rotation/shear fields and numpy; order measured on three step sizes (shows 'not lower than'); steps ending on land/outside or with clipped stage positions are judged by C09/C17 instead.",
            "DESIGN.md section 6, C01"),
    "C02": ("exploration", WM + ": reference interpolation from ground-truth nodes at every forcing update; paired runs through two legal subgrids; storage layout (subgrid, packing, stagger, masks, stretching) as the searched dimension",
            "The real Grid/Forcing read seeded synthetic ROMS files (sub-rectangles incl. negative indices, packed or float, 1..8 levels, masks) and the public velocity()/variables are compared particle by particle with an independent interpolation of the generator's node values, with the corner range, and with the same world loaded through another subgrid (bit-equal). Sampling over layouts and positions.",
            "Trusts the independent implementation of the ROMS s-coordinate formulas in ladsim/truth.py and netCDF4; a particle on a cell edge may take level pair and scalars of either adjoining cell, but of one and the same cell; depths on an s-level are not judged.",
            "DESIGN.md section 6, C02"),
    "C03": ("exploration", WM + ": frame/file layout histories (spacing incl. dt, irregular, one frame per file, start between frames, reversed) with a linear-in-time reference checked at every step and fraction",
            "The incremental forcing update, its hand-over at frame steps and the file switching are stateful over the model clock; every case steps the real model over a seeded layout and checks the public velocity at fractions 0, .25, .5, 1 and the scalar fields at every step against the ground truth. Sampling over layouts with probes that the rare situations (spacing = dt, reversed file switch, start straddling files) were hit.",
            "Frames lie on the model time grid (premise), stored in seconds, whole hours or float days; tolerance 1e-4 of the largest speed (float32 accumulation) against frame amplitudes at least 8 % apart.",
            "DESIGN.md section 6, C03"),
    "C04": ("exploration", WM + ": state before/after every release.update compared with a reference release schedule (window, multiplicity, order, columns, continuous ticks, lon/lat)",
            "Release accounting is a property of the history of steps; each case runs the real releaser inside the model on a seeded table and window and compares, at the release seam, exactly which particles entered at which step with which values. Sampling over tables, windows, modes and directions.",
            "Release times on the model time grid and sorted in simulation order (premise); lon/lat positions judged by the documented solver tolerance.",
            "DESIGN.md section 6, C04"),
    "C05": ("exploration", "model-based stateful testing: every operation program up to length 5 (quick) / 6 (thorough) over a 9-letter alphabet exhaustively plus seeded random programs against a dict reference, and identity invariants over every snapshot and record of whole-model runs",
            "Identifier reuse and misalignment need particular interleavings of append / kill / compactify / assignment; the short programs are enumerated exhaustively against a reference that cannot have cross-talk by construction, longer ones are sampled, and the same invariants are monitored in real simulations.",
            "The dict reference model in ladsim/oracles/c05.py; particle variables are addressed by pid and never compactified (documented).",
            "DESIGN.md section 6, C05"),
    "C06": ("exploration", WM + ": state at the moment Output.write is entered (recording shim) versus the files read back as the format documentation prescribes, over seeded release/death histories, both layouts, split files",
            "What was made durable is compared with what the state was: every record, count, time coordinate, particle variable and fill value of every file of a seeded run with deaths, empty records and dead trailing pids. Sampling over histories and variable sets.",
            "Trusts netCDF4/HDF5 for reading back; lon/lat values are judged by C16; f4 compared after float32 rounding.",
            "DESIGN.md section 6, C06"),
    "C07": ("exploration", WM + ": bounded-exhaustive (Nsteps, period, numrec, layout, direction, particle variables) grid in the thorough tier, seeded sample in quick; split-vs-unsplit paired runs",
            "Every case runs the real LADiM end to end and compares the files it leaves behind with the expected record times, file names and records per file, and with the unsplit run. Roll-over arithmetic is a finite-residue problem, so the thorough tier enumerates the 4704-case grid completely and samples larger values.",
            "File-name convention of doc/source/output.rst; synthetic worlds; sampling beyond the enumerated grid.",
            "DESIGN.md section 6, C07"),
    "C08": ("fault_enumeration", "crash/restart fault injection in deterministic whole-model simulation: the model is killed at a seeded step after EVERY completed output file of an uninterrupted run, only completed files survive, warm start, chains of up to three generations; restarted records compared with the uninterrupted run",
            "The fault (process death, durable state = completed files) is enumerated over every restart point of each seeded run and sampled over crash steps, stop choices and chains; equality with the uninterrupted run is checked record by record.",
            "Process death is emulated in-process (updates stop, handles dropped, completed files copied); diffusion off; a file is complete when its numrec-th record was written; one listed known finding (pid counter lost).",
            "DESIGN.md section 6, C08"),
    "C09": ("exploration", WM + ": safety invariants after every tracker and IBM call on the scenario's own mask, decisions (kill / land cancel / move) against a reference move, record histories, cold and warm start; seeded RNG seam for diffusion",
            "After every event of every run each living particle must be finite, inside and in water, and each decision of the tracker is compared with the reference move (unanimous over the named tableaux); coastlines, strong flows, schemes and diffusion are sampled with probes for land cancels, kills, inactivity and clipped stages.",
            "Targets within 1e-6 of a border or cell edge are not judged; death of an inactive particle at the border is left open as in the statement.",
            "DESIGN.md section 6, C09"),
    "C10": ("exploration", WM + ": paired executions under two clocks (time-reversed run versus forward run in the mirrored, sign-flipped world), clock/time-coordinate/release-time readings of the reversed run",
            "A relation between two executions of the real model: record for record the same pids and positions, plus the reversed clock at every step. Sampling over layouts, release tables and schemes.",
            "Scalar forcing left out of the pair comparison (values identify frames); tolerance 1e-6 cells.",
            "DESIGN.md section 6, C10"),
    "C11": ("exploration", WM + " with a seeded randomness seam: injected numpy Generator, clouds of 2e4..1e6 particles in an analytic still-water plug-in world, moment / covariance / independence statistics at 6.5 standard errors, bit-identity across seeds at zero coefficients, vertical random walk with and without a vertical current, non-uniform grid spacing (analytic world and ROMS grids read from files, also beyond 32768 cells), clouds beyond 65536 particles, continuation after a warm start from 32-bit positions",
            "The randomness source is owned by the simulator (one integer decides every draw), the statement is distributional; each seeded parameter setting is judged per step and cumulatively with wide deterministic bands. Sampling over D, Dz, dt, dx, dy over several decades.",
            "Bands of 6.5 standard errors; normality not tested; analytic plug-in grid/forcing are stubs.",
            "DESIGN.md section 6, C11"),
    "C13": ("exploration", "deterministic simulation of the model clock: the real TimeKeeper stepped through update() (also after being positioned at step 0 the way Model does for a warm start) against an integer-second reference clock; whole runs under every period spelling; malformed spellings injected into the configuration (start-up fault)",
            "The clock every module reads is stepped for every step of seeded histories in both directions and all conversions are compared with integer arithmetic; spelling equivalence is decided by identical runs, rejection by start-up refusal.",
            "One-second lattice; the malformed catalogue listed in ladsim/oracles/c13.py.",
            "DESIGN.md section 6, C13"),
    "C14": ("exploration", WM + ": families of related executions (row subset, row permutation, other particles' deaths, whole-step time shift, repetition) compared bit for bit by release-row identity",
            "Cross-talk arises only for particular histories (a death followed by an output step, misaligned per-particle caches); each family runs the real model five to six times and compares trajectories matched by (row tag, release step, ordinal). Sampling with probes for the critical histories; doubles as determinism evidence.",
            "f8 output; shifted relative compared with rtol 1e-12; fresh-interpreter repetition is in the determinism self-test.",
            "DESIGN.md section 6, C14"),
    "C15": ("exploration", WM + ": per-step invariant 0 <= Z <= h(start cell) under injected randomness and vertical advection, bit-identity of Z with both processes off",
            "Every particle after every step of seeded runs over variable bathymetry with vertical diffusion (seeded RNG) and/or vertical advection; premise violations are counted, not judged.",
            "Premise: start depth inside the column of the occupied cell and displacement below the local depth (10 sigma + |w| dt < h).",
            "DESIGN.md section 6, C15"),
    "C16": ("exploration", WM + " for the release -> state -> output pipeline on conformal grids (lon/lat release, lon/lat output, round trip on the live grid object); the sample2D utility clauses by direct seeded calls (no simulation, stated as such)",
            "Run cases check released positions, output lon/lat and the round trip against the generator's analytic coordinates; the clauses about the 2-D sampling utility cannot be reached by any run and are exercised by direct calls, which is input generation rather than simulation.",
            "Solver tolerance 1e-7 deg^2; 'ignores masked nodes' interpreted as within the range of the unmasked corners.",
            "DESIGN.md sections 6 and 7, C16"),
    "C17": ("exploration", "sanitizer-style monitor over the simulated scenario space: all profiles executed with NUMBA_BOUNDSCHECK=1 plus a position monitor on every forcing.velocity call of the tracker",
            "Out-of-range accesses of the compiled kernels are silent in normal runs; the whole scenario space of the other properties (biased to fast flow at the open boundary with RK schemes, subgrids, surface/bottom particles, one level) is executed with bounds checking forced on, and positions passed to the kernels are checked against the rectangle covered by the loaded fields.",
            "NUMBA_BOUNDSCHECK honoured (verified at start); negative indices are covered by the position monitor only.",
            "DESIGN.md section 6, C17"),
    "C18": ("exploration", "differential whole-model execution from three configuration spellings (YAML v2, TOML v2, legacy v1) and defaulted/omitted-section variants",
            "The same seeded simulation is written in every spelling and variant and the real model is run on each; outputs must be identical. No fault or history dimension; the simulator contributes the worlds and the seeded RNG seam for diffusion.",
            "Restricted to the version-1 vocabulary; forcing.module always given.",
            "DESIGN.md section 6, C18"),
    "C19": ("exploration", WM + " with recording shims on all eight modules: call-order / exactly-once / visibility rules over the recorded history, cold and warm start, plug-in precedence with an importable decoy and with files named like LADiM's own modules, IBM sections without options, IBM classes derived from the base class, sampled runs through ladim.main.main(), isolation of a plain run made before and after the run with plug-ins in the same process",
            "Ordering and exactly-once over the recorded call log and state snapshots of every step of seeded runs; plug-ins given by absolute path, relative path with and without .py, and module name.",
            "The shims override only existing methods and delegate unchanged.",
            "DESIGN.md section 6, C19"),
    "C20": ("fault_enumeration", "start-up fault injection: a catalogue of 21 fault kinds (with applicability predicate and effect proof) applied to valid seeded base scenarios, singly and in combinations of 2-3; thorough: every kind on every base",
            "Each fault makes the set-up impossible by construction; the real configure()/Model() must refuse and no record may exist afterwards; unfaulted controls must start.",
            "Any exception type counts as refusal; the catalogue is finite and listed in ladsim/oracles/c20.py.",
            "DESIGN.md section 6, C20"),
}

NOT_APPLICABLE = {
    "C12": "pure functions of their arguments (s_stretch, sdepth, z2s): no clock, storage, fault, randomness or history for a simulator to control; only input generation would remain (DESIGN.md section 7). Indirectly exercised through C02's reference interpolation.",
}

PENDING_REASON = "check not built yet in this round (DESIGN.md section 6 describes the planned check); not claimed until it runs clean"

ALL = [f"C{n:02d}" for n in range(1, 21)]


def main():
    checks = []
    for pid in ALL:
        if pid not in CHECKS:
            continue
        level, tech, text, note, ref = CHECKS[pid]
        checks.append({
            "property_id": pid,
            "quick_cmd": f"./check {pid} --tier quick",
            "thorough_cmd": f"./check {pid} --tier thorough",
            "evidence_file": f"/verif/evidence/{pid}.json",
            "replay_cmd_template": f"./check {pid} --replay {{path}}",
            "engine": "ladsim",
            "level_claimed": {"category": level, "text": text, "design_ref": ref},
            "level_note": note,
            "technique": tech,
        })
    na = []
    for pid in ALL:
        if pid in CHECKS:
            continue
        na.append({"property_id": pid, "reason": NOT_APPLICABLE.get(pid, PENDING_REASON)})
    man = {
        "version": 1,
        "setup_cmd": "./check --setup",
        "hooks": {
            "guard": "LADIM2_VERIF",
            "enable": "no source hooks: the simulator uses LADiM's own plug-in seam (module: <path>) and patches numpy.random.default_rng around Model(); ./check exports LADIM2_VERIF=1 for form",
            "baseline_off_cmd": "cd /repo && /venv/bin/python -m pytest -ra -q -p no:cacheprovider --timeout=900 --continue-on-collection-errors",
            "source_commits": [],
            "add_only": True,
        },
        "engines": [{
            "name": "ladsim",
            "path": "/verif/ladsim",
            "serves_properties": sorted(CHECKS),
            "kind_free_text": "deterministic whole-model simulator for LADiM: seeded synthetic ocean worlds on tmpfs, recording plug-in shims on all eight modules, seeded RNG seam, crash/restart and start-up fault injection, reference model, delta-debugging minimiser, JSON replay files",
        }],
        "checks": checks,
        "not_applicable": na,
        "notes": "All checks: exit 0 = held on everything explored (KNOWN-FINDING lines for listed findings), exit 1 = VIOLATION line(s) with replay file, exit 2 = harness error / inconclusive (never a VIOLATION). VERIF_SEED selects the master seed. See DESIGN.md.",
    }
    (VERIF / "MANIFEST.json").write_text(json.dumps(man, indent=1) + "\n")
    print("wrote MANIFEST.json with", len(checks), "checks;", len(na), "not claimed")


if __name__ == "__main__":
    main()
