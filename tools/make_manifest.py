#!/usr/bin/env python3
"""Regenerate MANIFEST.json from the table below (run from /verif)."""
import json
from pathlib import Path

VERIF = Path(__file__).resolve().parents[1]

# id -> (level, technique, level text, level note, design ref)
CHECKS = {
    "C07": ("exploration",
            "deterministic whole-model simulation: bounded-exhaustive (Nsteps, period, numrec, layout, direction) grid, split-vs-unsplit paired runs",
            "Every case runs the real LADiM end to end on a seeded synthetic world and compares the files it leaves behind with the expected record times, file names and records per file, and with the unsplit run. The thorough tier enumerates the 4704-case grid completely and samples larger values; roll-over arithmetic is a finite-residue problem, so bounded-exhaustive execution is the right level.",
            "Trusts netCDF4/HDF5 and the file-name convention of doc/source/output.rst; worlds are synthetic (tiny ROMS files); sampling beyond the enumerated grid.",
            "DESIGN.md section 6, C07"),
}

NOT_APPLICABLE = {
    "C12": "pure functions of their arguments (s_stretch, sdepth, z2s): no clock, storage, fault, randomness or history for a simulator to control; only input generation would remain (DESIGN.md section 7). Indirectly exercised through C02's reference interpolation.",
}

PENDING_REASON = "check not built yet in this round (DESIGN.md section 6 describes the planned check); not claimed until it runs clean"

ALL = [f"C{n:02d}" for n in range(1, 21)]


def main():
    checks = []
    for pid in ALL:
        if pid not in CHECKS:
            continue
        level, tech, text, note, ref = CHECKS[pid]
        checks.append({
            "property_id": pid,
            "quick_cmd": f"./check {pid} --tier quick",
            "thorough_cmd": f"./check {pid} --tier thorough",
            "evidence_file": f"/verif/evidence/{pid}.json",
            "replay_cmd_template": f"./check {pid} --replay {{path}}",
            "engine": "ladsim",
            "level_claimed": {"category": level, "text": text, "design_ref": ref},
            "level_note": note,
            "technique": tech,
        })
    na = []
    for pid in ALL:
        if pid in CHECKS:
            continue
        na.append({"property_id": pid, "reason": NOT_APPLICABLE.get(pid, PENDING_REASON)})
    man = {
        "version": 1,
        "setup_cmd": "./check --setup",
        "hooks": {
            "guard": "LADIM2_VERIF",
            "enable": "no source hooks: the simulator uses LADiM's own plug-in seam (module: <path>) and patches numpy.random.default_rng around Model(); ./check exports LADIM2_VERIF=1 for form",
            "baseline_off_cmd": "cd /repo && /venv/bin/python -m pytest -ra -q -p no:cacheprovider --timeout=900 --continue-on-collection-errors",
            "source_commits": [],
            "add_only": True,
        },
        "engines": [{
            "name": "ladsim",
            "path": "/verif/ladsim",
            "serves_properties": sorted(CHECKS),
            "kind_free_text": "deterministic whole-model simulator for LADiM: seeded synthetic ocean worlds on tmpfs, recording plug-in shims on all eight modules, seeded RNG seam, crash/restart and start-up fault injection, reference model, delta-debugging minimiser, JSON replay files",
        }],
        "checks": checks,
        "not_applicable": na,
        "notes": "All checks: exit 0 = held on everything explored (KNOWN-FINDING lines for listed findings), exit 1 = VIOLATION line(s) with replay file, exit 2 = harness error / inconclusive (never a VIOLATION). VERIF_SEED selects the master seed. See DESIGN.md.",
    }
    (VERIF / "MANIFEST.json").write_text(json.dumps(man, indent=1) + "\n")
    print("wrote MANIFEST.json with", len(checks), "checks;", len(na), "not claimed")


if __name__ == "__main__":
    main()
