#!/bin/bash
# tools/verify_seed.sh <seed worktree> <id> <property>: confirm a seeded change independently in a fresh scratch worktree
src=$1; id=$2; prop=$3
wt=$(mktemp -u /tmp/ladsim-vs-XXXX)
git -C /repo worktree add -q --detach $wt HEAD || exit 9
mkdir -p $wt/SEED; cp $src/SEED/demo.py $wt/SEED/
cd $wt
PYTHONPATH=$wt timeout 600 /venv/bin/python SEED/demo.py > /tmp/vs_demo0.log 2>&1; d0=$?
git apply $src/SEED/patch.diff || { echo "$id: patch does not apply"; git -C /repo worktree remove --force $wt; exit 8; }
t=$(PYTHONPATH=$wt timeout 900 /venv/bin/python -m pytest -q -p no:cacheprovider 2>&1 | tail -1)
PYTHONPATH=$wt timeout 600 /venv/bin/python SEED/demo.py > /tmp/vs_demo1.log 2>&1; d1=$?
echo "$id ($prop): demo without=$d0 with=$d1 ; tests: $t"
cd /; git -C /repo worktree remove --force $wt
